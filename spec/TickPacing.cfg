SPECIFICATION Spec
INVARIANT TypeOK StopsWithSession
PROPERTY HelloGap HelloOnlyWhileIncomplete SilentWhenEmpty NoBackToBack
CHECK_DEADLOCK FALSE
