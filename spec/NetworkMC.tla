----------------------------- MODULE NetworkMC -----------------------------
(***************************************************************************)
(* C10: two instances of the responder (A, B) on one segment, a mapper and *)
(* a wire that delivers A's transmitted frames, unmodified, to B.  C06     *)
(* does not say what the REAL destination of an emitted Probe/Train is, so *)
(* it is a parameter here: the descriptor's destination ("dst", what       *)
(* MS-LLTD prescribes), the mapper ("mapper", what the pinned code did) or *)
(* broadcast ("bcast").  With C07's observer rule (record iff the real     *)
(* destination is the own address) the invariant PeerObserves holds for    *)
(* exactly one of the three: TLC verifies it for "dst" and refutes it for  *)
(* the other two (configs NetworkMC-mapper/bcast, required to fail).       *)
(***************************************************************************)
EXTENDS MCUniverse, SequencesExt

CONSTANT RdChoice

A == Own
B == Peer
CfgA == Cfg
CfgB == [Cfg EXCEPT !.own = B]

VARIABLES stA, stB, wire, delivered
nvars == << stA, stB, wire, delivered >>

RdOf(d, mapper) == CASE RdChoice = "dst" -> d.dst [] RdChoice = "mapper" -> mapper [] OTHER -> BCAST

Descs == { Desc(k, 0, s, t) : k \in {0, 1}, s \in {A, P1}, t \in {B, X} }

Init == /\ stA = MapperSet(InitState, M1, M1) /\ stB = MapperSet(InitState, M1, M1)
        /\ wire = {} /\ delivered = {}

(* the mapper orders A to emit one descriptor; A's reaction must be allowed by the general spec *)
EmitA ==
  \E d \in Descs :
    LET r == [Rq(OpEmit, 0, M1, A, M1, A, 6) EXCEPT !.declared = 1, !.descs = << d >>, !.len = 48]
        f == [Fr(IF d.kind = 1 THEN OpProbe ELSE OpTrain, 0, d.src, d.dst, A, RdOf(d, M1), 0, 32) EXCEPT !.wf = TRUE]
        o == << S(0), T(f), T(Fr(OpAck, 0, A, M1, A, M1, 6, 32)) >>
    IN \E nx \in NextStates(CfgA, stA, r, o, 0, 0) :
         /\ stA' = nx /\ wire' = wire \cup {f} /\ UNCHANGED << stB, delivered >>

(* a frame A put on the wire reaches B unmodified *)
Deliver ==
  \E f \in wire :
    LET r == Rq(f.op, f.tos, f.es, f.ed, f.rs, f.rd, f.seq) IN
    \E nx \in NextStates(CfgB, stB, r, << >>, 0, 0) :
      /\ stB' = nx /\ wire' = wire \ {f}
      /\ delivered' = IF f.ed = B THEN delivered \cup {[rs |-> A, es |-> f.es, ed |-> f.ed]} ELSE delivered
      /\ UNCHANGED stA

(* unrelated traffic at B: a third station using the same Ethernet addresses, other stations, a heard Hello *)
Unrelated ==
  \E r \in { Rq(OpProbe, 0, A, B, X, B, 0), Rq(OpProbe, 0, P1, B, X, B, 0), Rq(OpTrain, 0, P1, X, X, X, 0), Rq(OpHello, 0, X, B, X, B, 0) } :
    \E nx \in NextStates(CfgB, stB, r, << >>, 0, 0) : stB' = nx /\ UNCHANGED << stA, wire, delivered >>

(* the mapper queries B; B answers with everything it holds (one frame suffices in this scope) *)
QueryB ==
  LET r == Rq(OpQuery, 0, M1, B, M1, B, 7)
      ds == SetToSeq(stB.obs)
      f == [Fr(OpQueryResp, 0, B, M1, B, M1, 7, 34 + 20 * Len(ds)) EXCEPT
              !.descs = [i \in 1..Len(ds) |-> [ty |-> 0, rs |-> ds[i].rs, es |-> ds[i].es, ed |-> ds[i].ed]],
              !.wf = TRUE]
  IN \E nx \in NextStates([CfgB EXCEPT !.mtu = 1500], stB, r, << T(f) >>, 0, 0) :
       /\ stB' = nx /\ delivered' = {} /\ UNCHANGED << stA, wire >>

Next == EmitA \/ Deliver \/ Unrelated \/ QueryB
Spec == Init /\ [][Next]_nvars

(* every frame A emitted towards B and that reached B is held by B with A as its source, *)
(* hence appears in B's next QueryResp (QueryRespOK demands D = obs when the flag is clear) *)
PeerObserves == delivered \subseteq stB.obs
Bounded == Cardinality(wire) <= 8
=============================================================================
