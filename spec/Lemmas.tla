------------------------------- MODULE Lemmas -------------------------------
(***************************************************************************)
(* Arithmetic facts TLC cannot evaluate because its integers are 32-bit,   *)
(* discharged by Apalache over unbounded integers (bin/check C13,          *)
(* thorough tier:  apalache-mc check --length=1 --inv=ClosedForm).         *)
(*                                                                         *)
(* ClosedForm: min(NMAX, ALPHA * r^2) equals NMAX for every r >= 15 and    *)
(* ALPHA * r^2 below that - the form Automata!NiNext uses, which never     *)
(* multiplies numbers that could exceed 32 bits.                           *)
(* Monotone: the repetition count never decreases when r grows.            *)
(***************************************************************************)
EXTENDS Integers

VARIABLE
  \* @type: Int;
  r,
  \* @type: Int;
  q

NMAX == 10000
ALPHA == 45

Min(a, b) == IF a <= b THEN a ELSE b
Ni(x) == Min(NMAX, ALPHA * x * x)
Closed(x) == IF x >= 15 THEN NMAX ELSE ALPHA * x * x

Init == r \in Nat /\ q \in Nat
Next == r' \in Nat /\ q' \in Nat

ClosedForm == Ni(r) = Closed(r)
Monotone == (r <= q) => (Ni(r) <= Ni(q))
Range == r >= 1 => (Ni(r) >= ALPHA /\ Ni(r) <= NMAX)
=============================================================================
