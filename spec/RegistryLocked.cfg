SPECIFICATION Spec
CONSTANTS Threads = {1, 2}
          Calls = 2
          Locked = TRUE
INVARIANT NoSharedRecord NoLostState
CHECK_DEADLOCK FALSE
