------------------------------- MODULE Wire -------------------------------
(***************************************************************************)
(* Byte-level vocabulary of LLTD, written from MS-LLTD (offsets and        *)
(* lengths as numbers, not from lltdProtocol.h).  Pure operators, no       *)
(* variables.  Byte sequences are 1-based sequences of 0..255.             *)
(*                                                                         *)
(* Demultiplex header (1-based):  dst 1-6, src 7-12, ethertype 13-14,      *)
(* version 15, ToS 16, reserved 17, opcode 18, real dst 19-24,             *)
(* real src 25-30, sequence/xid 31-32.                                     *)
(***************************************************************************)
EXTENDS Naturals, Sequences, FiniteSets

BCAST == <<255, 255, 255, 255, 255, 255>>

OpDiscover == 0   OpHello == 1   OpEmit == 2   OpTrain == 3   OpProbe == 4
OpAck == 5        OpQuery == 6   OpQueryResp == 7   OpReset == 8
OpCharge == 9     OpFlat == 10   OpQueryLarge == 11  OpQueryLargeResp == 12

Min(a, b) == IF a <= b THEN a ELSE b
Max(a, b) == IF a >= b THEN a ELSE b

(* capacities implied by the MTU *)
EmitCap(mtu)  == IF mtu > 34 THEN (mtu - 34) \div 14 ELSE 0
QueryCap(mtu) == IF mtu > 34 THEN (mtu - 34) \div 20 ELSE 0
LargeCap(mtu) == IF mtu > 34 THEN mtu - 34 ELSE 0

(***************************************************************************)
(* A received buffer is logged as prefix + fill byte: the MTU-sized        *)
(* receive buffer holds the prefix followed by `fill' up to the MTU.       *)
(***************************************************************************)
At(pre, fill, i) == IF i <= Len(pre) THEN pre[i] ELSE fill
W16(pre, fill, i) == At(pre, fill, i) * 256 + At(pre, fill, i + 1)
A6(pre, fill, i) == << At(pre, fill, i), At(pre, fill, i + 1), At(pre, fill, i + 2),
                       At(pre, fill, i + 3), At(pre, fill, i + 4), At(pre, fill, i + 5) >>

(* same on a plain byte sequence *)
U16(b, i) == b[i] * 256 + b[i + 1]
Addr(b, i) == << b[i], b[i + 1], b[i + 2], b[i + 3], b[i + 4], b[i + 5] >>
Slice(b, i, n) == [k \in 1..n |-> b[i + k - 1]]

(***************************************************************************)
(* Decoding of a received buffer into an abstract request.  `len' is the   *)
(* length the frame had on the wire; the core is not told it, so the       *)
(* request is decoded from the whole MTU-sized buffer and `len' only says  *)
(* what the frame really carried.                                          *)
(***************************************************************************)
HeaderValid(pre, fill) == W16(pre, fill, 13) = 35033 /\ At(pre, fill, 15) = 1   \* 0x88D9

RxDecode(pre, fill, len, mtu) ==
  LET tos == At(pre, fill, 16)
      op  == At(pre, fill, 18)
      declared == W16(pre, fill, 33)
      nwalk == Min(declared, EmitCap(mtu))
  IN [ hv   |-> HeaderValid(pre, fill),
       tos  |-> tos,
       op   |-> op,
       ed   |-> A6(pre, fill, 1),
       es   |-> A6(pre, fill, 7),
       rd   |-> A6(pre, fill, 19),
       rs   |-> A6(pre, fill, 25),
       seq  |-> W16(pre, fill, 31),
       len  |-> len,
       grew |-> "?",       \* did the retained allocation count grow while this request was served? (set by the trace spec)
       \* Discover
       gen  |-> W16(pre, fill, 33),
       \* Emit: declared count, and the descriptors a walk bounded by the buffer would see
       declared |-> declared,
       descs |-> IF op = OpEmit
                 THEN [i \in 1..nwalk |->
                        [ kind  |-> At(pre, fill, 35 + 14 * (i - 1)),
                          pause |-> At(pre, fill, 36 + 14 * (i - 1)),
                          src   |-> A6(pre, fill, 37 + 14 * (i - 1)),
                          dst   |-> A6(pre, fill, 43 + 14 * (i - 1)) ]]
                 ELSE << >>,
       \* QueryLargeTlv
       ltype |-> At(pre, fill, 33),
       off   |-> W16(pre, fill, 35) ]

(***************************************************************************)
(* TLV lists.  A list is a sequence of (type, length, value) items closed  *)
(* by the single byte 0x00, which must be the last byte of the frame.      *)
(* TLVSeq returns the items; an item with t < 0 is an error token.         *)
(***************************************************************************)
ErrRanOff == [t |-> 0 - 1, v |-> << >>]    \* list runs past the end of the frame
ErrNotLast == [t |-> 0 - 2, v |-> << >>]   \* end marker present but not the last byte

RECURSIVE TLVSeq(_, _)
TLVSeq(b, i) ==
  IF i > Len(b) THEN << ErrRanOff >>
  ELSE IF b[i] = 0 THEN (IF i = Len(b) THEN << >> ELSE << ErrNotLast >>)
  ELSE IF i + 1 > Len(b) \/ i + 1 + b[i + 1] > Len(b) THEN << ErrRanOff >>
  ELSE << [t |-> b[i], v |-> Slice(b, i + 2, b[i + 1])] >> \o TLVSeq(b, i + 2 + b[i + 1])

(* legal value length per property type (MS-LLTD 2.2.2.3); unknown types: anything that fits *)
LegalLen(t, n) ==
  CASE t = 1  -> n = 6       \* host id
    [] t = 2  -> n = 4       \* characteristics
    [] t = 3  -> n = 4       \* physical medium
    [] t = 4  -> n = 1       \* wireless mode
    [] t = 5  -> n = 6       \* BSSID
    [] t = 6  -> n <= 32     \* SSID
    [] t = 7  -> n = 4       \* IPv4
    [] t = 8  -> n = 16      \* IPv6
    [] t = 9  -> n = 2       \* max rate
    [] t = 10 -> n = 8       \* perf counter frequency
    [] t = 12 -> n = 4       \* link speed
    [] t = 13 -> n = 4       \* RSSI
    [] t = 14 -> n = 0       \* icon (large: by QueryLargeTlv)
    [] t = 15 -> n <= 32     \* machine name
    [] t = 16 -> n <= 64     \* support URL
    [] t = 17 -> n = 0       \* friendly name (large)
    [] t = 18 -> n = 16      \* UUID
    [] t = 19 -> n <= 64     \* hardware id
    [] t = 20 -> n = 4       \* QoS characteristics
    [] t = 21 -> n = 1       \* 802.11 physical medium
    [] t = 25 -> n = 2       \* sees-list working set
    [] OTHER  -> TRUE

TLVListOK(tl) ==
  /\ \A i \in 1..Len(tl) : tl[i].t > 0 /\ LegalLen(tl[i].t, Len(tl[i].v))
  /\ Len(tl) >= 1 /\ tl[1].t = 1                                   \* host id first
  /\ \A i, j \in 1..Len(tl) : i # j => tl[i].t # tl[j].t            \* no type twice

(***************************************************************************)
(* Decoding of a transmitted frame.  `wf' is C02's per-frame clause: a     *)
(* well-formed LLTD frame a responder may send, not longer than `mtu',     *)
(* with `own' as real source.                                              *)
(***************************************************************************)
NoFrame == [ n |-> 0, wf |-> FALSE, why |-> "short", op |-> 0 - 1, tos |-> 0 - 1,
             ed |-> << >>, es |-> << >>, rd |-> << >>, rs |-> << >>, seq |-> 0 - 1,
             gen |-> 0 - 1, cur |-> << >>, app |-> << >>, tlvs |-> << >>,
             more |-> FALSE, descs |-> << >>, pay |-> << >> ]

TxDecode(b, own, mtu) ==
  IF Len(b) < 32 THEN [NoFrame EXCEPT !.n = Len(b)]
  ELSE
  LET n  == Len(b)
      op == b[18]
      word == IF n >= 34 THEN U16(b, 33) ELSE 0
      cnt  == word % 16384
      tl   == IF op = OpHello /\ n >= 47 THEN TLVSeq(b, 47) ELSE << >>
      base == /\ n <= mtu
              /\ U16(b, 13) = 35033 /\ b[15] = 1 /\ b[17] = 0
              /\ Addr(b, 25) = own
      shape == CASE op = OpHello -> n >= 47 /\ TLVListOK(tl)
                 [] op \in {OpProbe, OpTrain, OpAck} -> n = 32
                 [] op = OpQueryResp -> n >= 34 /\ n = 34 + 20 * cnt
                                        /\ \A i \in 1..cnt : U16(b, 35 + 20 * (i - 1)) \in {0, 1}     \* descriptor type: Train / Probe
                 [] op = OpQueryLargeResp -> n >= 34 /\ n = 34 + cnt
                 [] OTHER -> FALSE
  IN [ n    |-> n,
       wf   |-> base /\ shape,
       why  |-> IF ~base THEN "base" ELSE IF ~shape THEN "shape" ELSE "",
       op   |-> op,
       tos  |-> b[16],
       ed   |-> Addr(b, 1),
       es   |-> Addr(b, 7),
       rd   |-> Addr(b, 19),
       rs   |-> Addr(b, 25),
       seq  |-> U16(b, 31),
       gen  |-> IF op = OpHello /\ n >= 46 THEN U16(b, 33) ELSE 0 - 1,
       cur  |-> IF op = OpHello /\ n >= 46 THEN Addr(b, 35) ELSE << >>,
       app  |-> IF op = OpHello /\ n >= 46 THEN Addr(b, 41) ELSE << >>,
       tlvs |-> tl,
       more |-> word >= 32768,
       descs |-> IF op = OpQueryResp /\ n >= 34 /\ n = 34 + 20 * cnt
                 THEN [i \in 1..cnt |->
                        [ ty |-> U16(b, 35 + 20 * (i - 1)),
                          rs |-> Addr(b, 37 + 20 * (i - 1)),
                          es |-> Addr(b, 43 + 20 * (i - 1)),
                          ed |-> Addr(b, 49 + 20 * (i - 1)) ]]
                 ELSE << >>,
       pay  |-> IF op = OpQueryLargeResp /\ n >= 34 /\ n = 34 + cnt
                THEN Slice(b, 35, cnt) ELSE << >> ]

(* big-endian 32-bit quantity given as two 16-bit halves (TLC integers are 32-bit) *)
BE32h(hi, lo) == << hi \div 256, hi % 256, lo \div 256, lo % 256 >>
BE16(x) == << x \div 256, x % 256 >>

=============================================================================
