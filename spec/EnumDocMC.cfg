SPECIFICATION Spec
