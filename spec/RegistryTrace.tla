--------------------------- MODULE RegistryTrace ---------------------------
(***************************************************************************)
(* Conformance of the real lltd_state_for_iface to Registry.tla: every     *)
(* schedule that was forced through the yield hooks on real threads is a   *)
(* record {steps, reach, replied}; the model is explored only along the    *)
(* recorded schedules (state constraint) and at the end of each one the    *)
(* model's outcome must equal the observed one:                            *)
(*   reach    interfaces whose record is reachable from the list head      *)
(*   replied  per thread and call: was the Discover answered?  The k-th    *)
(*            call comes from a k-th mapper, so it is answered iff the     *)
(*            record it was handed is a fresh one.                         *)
(* Classification of lost records (C17): a record is lost in a schedule    *)
(* in which the first-call critical sections of two threads overlap - the  *)
(* recorded known finding; a loss without overlap would be a new one.      *)
(***************************************************************************)
EXTENDS Registry, Json, IOUtils, TLCExt, SequencesExt

Log == ndJsonDeserialize(IOEnv.TRACE)
Recs == {i \in 1..Len(Log) : Log[i].e = "sched"}
Steps(i) == [j \in 1..Len(Log[i].steps) |-> << Log[i].steps[j][1], Log[i].steps[j][2] >>]

AlongRecorded == \E i \in Recs : IsPrefix(sched, Steps(i))

Fresh(t, c) == c = 1 \/ got[t][c] # got[t][c - 1]
ModelReplied(t) == [c \in 1..Calls |-> IF Fresh(t, c) THEN 1 ELSE 0]

Matches(i) ==
  /\ sched = Steps(i)
  /\ Log[i].infeasible = 0
  /\ OwnersReachable = {Log[i].reach[j] : j \in 1..Len(Log[i].reach)}
  /\ \A t \in Threads : Log[i].replied[t] = ModelReplied(t)

ASSUME TLCSet(3, {})
Conformance == Done => (\E i \in Recs : Matches(i) /\ TLCSet(3, TLCGet(3) \cup {i}))

(* observed property violations, per record *)
FirstIdx(s, t, what) == CHOOSE j \in 1..Len(s) : s[j] = << t, what >> /\ \A m \in 1..(j - 1) : s[m] # << t, what >>
Has(s, t, what) == \E j \in 1..Len(s) : s[j] = << t, what >>
Overlap(s) == \E a, b \in Threads : a # b /\ Has(s, a, "publish") /\ Has(s, b, "lookup") /\
                 FirstIdx(s, a, "lookup") < FirstIdx(s, b, "lookup") /\ FirstIdx(s, b, "lookup") < FirstIdx(s, a, "publish")
LostIn(i) == {t \in Threads : \E c \in 2..Calls : Log[i].replied[t][c] = 1}
SharedIn(i) == {t \in Threads : Log[i].replied[t][1] = 0}

AllMatched ==
  /\ PrintT(<< "MATCHED", Cardinality(TLCGet(3)), "OF", Cardinality(Recs) >>)
  /\ \A i \in Recs : /\ (LostIn(i) # {} /\ Overlap(Steps(i))) => PrintT(<< "LOST-KNOWN", Log[i].ln >>)
                     /\ (LostIn(i) # {} /\ ~Overlap(Steps(i))) => PrintT(<< "LOST-NEW", Log[i].ln >>)
                     /\ (SharedIn(i) # {}) => PrintT(<< "SHARED", Log[i].ln >>)
                     /\ (i \notin TLCGet(3)) => PrintT(<< "UNMATCHED", Log[i].ln >>)
=============================================================================
