SPECIFICATION Spec
