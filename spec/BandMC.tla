------------------------------- MODULE BandMC -------------------------------
(***************************************************************************)
(* C13 on the range TLC's 32-bit integers allow: for every r whose product *)
(* ALPHA * r * r fits, the closed form used by Automata!NiNext equals      *)
(* min(NMAX, ALPHA * r^BETA); the count is monotone in r and stays within  *)
(* [ALPHA, NMAX]; the load-formula interval is monotone in the count.      *)
(* (For all naturals: Lemmas.tla, discharged by Apalache.)                 *)
(***************************************************************************)
EXTENDS Automata, TLC

RMax == 6908      \* largest r with 45 * r * r < 2^31

Direct(r) == Min(NMAX, ALPHA * r * r)

ASSUME \A r \in 1..RMax : NiNext(ALPHA, 0, r, TRUE) = Direct(r)
ASSUME \A r \in 1..(RMax - 1) : NiNext(ALPHA, 0, r, TRUE) <= NiNext(ALPHA, 0, r + 1, TRUE)
ASSUME \A r \in 1..RMax : NiNext(ALPHA, 0, r, TRUE) >= ALPHA /\ NiNext(ALPHA, 0, r, TRUE) <= NMAX
ASSUME \A hi \in 1..3 : \A lo \in {0, 1, 14, 15, 65535} : NiNext(ALPHA, hi, lo, TRUE) = NMAX
ASSUME \A p \in {ALPHA, 180, NMAX} : \A r \in {0, 1, 20} : NiNext(p, 0, r, FALSE) = p /\ NiNext(p, 0, 0, TRUE) = p
ASSUME \A n \in ALPHA..(NMAX - 1) : HelloIntervalMin(n) <= HelloIntervalMin(n + 1)
ASSUME HelloIntervalMin(ALPHA) = 120 /\ HelloIntervalMin(NMAX) = 26667

VARIABLE x
Spec == x = 0 /\ [][x' = x]_x
=============================================================================
