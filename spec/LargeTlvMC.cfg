SPECIFICATION Spec
CONSTANT Check = {}
CONSTANTS MaxSize = 12
          MaxCap = 5
INVARIANT Reassembled Progresses PastEnd
PROPERTY Terminates
CHECK_DEADLOCK FALSE
