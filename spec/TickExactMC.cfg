SPECIFICATION Spec
INVARIANT HelloJustified GapOK
CONSTRAINT Horizon
CHECK_DEADLOCK FALSE
