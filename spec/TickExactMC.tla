---------------------------- MODULE TickExactMC ----------------------------
(***************************************************************************)
(* C12 on the EXACT model of the tick and of the frame flow.               *)
(*                                                                         *)
(* TickPacing abstracts the clocks into classes so that TLC can explore it *)
(* exhaustively; Automata!TickExact / FrameExact are the other end: the    *)
(* arithmetic of automata_tick and of the Darwin frame flow value for      *)
(* value, which recorded executions of the real code are compared with     *)
(* field by field (check XTICK).  This module closes the triangle: the     *)
(* exact model itself satisfies C12 - periodic Hellos only from the tick,  *)
(* only while a session is incomplete, never less than a second apart,     *)
(* none once the table is empty - under every schedule of ticks, frames,   *)
(* table operations and clock advances that TLC generates.  Time is        *)
(* unbounded, so the state space is explored by simulation (random         *)
(* behaviours of bounded length), not exhaustively; the exhaustive         *)
(* argument is TickPacing's.                                               *)
(***************************************************************************)
EXTENDS Automata, TLC

VARIABLES f,         \* the automata record (as AutomataTrace!FullOf logs it), mapping engine state included
          now,       \* clock, milliseconds
          lastIn,    \* second of the last input to the mapping engine
          sentAt,    \* time of the last periodic Hello (-1: none)
          gap,       \* distance between the last two periodic Hellos (-1: fewer than two)
          why        \* ghost: "ok" or what was wrong with the last Hello
vars == << f, now, lastIn, sentAt, gap, why >>

MT == << 0, 5, 30 >>
Keys == {1, 2}
Steps == {1, 50, 100, 120, 299, 300, 301, 700, 999, 1000, 1001, 5000, 29000, 30000, 31000, 61000}

F0 == [ms |-> 0, live |-> {}, es |-> 0, hto |-> 0 - 1, bto |-> 0 - 1, lasttx |-> 0, ni |-> << 0, 45 >>, r |-> << 0, 0 >>,
       begun |-> 0, ctc |-> 0, cdl |-> 0 - 1, inact |-> 0, clamped |-> FALSE]

Init == f = F0 /\ now = 1000 /\ lastIn = 1 /\ sentAt = 0 - 1 /\ gap = 0 - 1 /\ why = "ok"

Merge(g, w, ms1, nows, fired) ==
  [g EXCEPT !.es = w.es, !.live = w.live, !.ctc = w.ctc, !.hto = w.hto, !.bto = w.bto, !.lasttx = w.lasttx,
            !.ni = w.ni, !.r = w.r, !.begun = w.begun, !.inact = w.inact, !.ms = ms1,
            !.cdl = CdlAfterTick(g, nows, fired)]

(* what a Hello sent at time t by a tick that left table L must satisfy *)
Judge(w, t) ==
  IF ~w.sent THEN "ok"
  ELSE IF w.live = {} THEN "Hello with an empty table"
  ELSE IF AllComplete(w.live) THEN "Hello while every session is complete"
  ELSE IF sentAt >= 0 /\ t - sentAt < 1000 THEN "Hellos less than a second apart"
  ELSE "ok"

Note(w, t) ==
  /\ why' = Judge(w, t)
  /\ sentAt' = (IF w.sent THEN t ELSE sentAt)
  /\ gap' = (IF w.sent /\ sentAt >= 0 THEN t - sentAt ELSE gap)

Advance == \E d \in Steps : now' = now + d /\ UNCHANGED << f, lastIn, sentAt, gap, why >>

Tick ==
  LET nows == now \div 1000
      fired == f.inact # 0 /\ nows >= f.inact
      w == TickExact(f, now)
  IN /\ f' = Merge(f, w, IF fired THEN 0 ELSE f.ms, nows, fired)
     /\ lastIn' = (IF fired /\ f.ms # 0 THEN nows ELSE lastIn)
     /\ Note(w, now)
     /\ UNCHANGED now

(* a frame through the Darwin flow: mapping engine, FrameExact, parseFrame (a topology Discover pauses 10 ms *)
(* before its Hello), closing tick                                                                         *)
Frame ==
  \E op \in {OpDiscover, OpHello, OpReset, OpCharge, OpEmit, OpQuery}, k \in Keys, acking \in BOOLEAN :
    \E ms1 \in MappingStep(f.ms, op, now \div 1000 - lastIn, MT) :
      LET pre == FrameExact(f, op, k, 1, acking, f.ms # 0 /\ ms1 = 0, now)
          t == now + (IF op = OpDiscover THEN 10 ELSE 0)
          w == TickExact(pre, t)
      IN /\ f' = Merge(pre, w, ms1, t \div 1000, FALSE)
         /\ now' = t
         /\ lastIn' = t \div 1000
         /\ Note(w, t)

(* the table through the public API, without a frame *)
TableOp ==
  /\ \E k \in Keys :
       \/ f' = [f EXCEPT !.live = TAdd(f.live, k, 1, now \div 1000, TableCap)]
       \/ f' = [f EXCEPT !.live = TComplete(f.live, k, 1)]
       \/ f' = [f EXCEPT !.live = TRemove(f.live, k, 1)]
  /\ UNCHANGED << now, lastIn, sentAt, gap, why >>

Next == Advance \/ Tick \/ Frame \/ TableOp
Spec == Init /\ [][Next]_vars

(* C12 *)
HelloJustified == why = "ok"
GapOK == gap < 0 \/ gap >= 1000
(* once the table is empty and a tick has seen it, RepeatBand is idle and disarmed *)
Horizon == now < 400000          \* keeps the clock inside TLC's integers; behaviours are cut here

(* vacuity guards (must be violated): Hellos are sent, and sent more than once *)
NeverSends == sentAt < 0
NeverTwice == gap < 0
=============================================================================
