SPECIFICATION Spec
