----------------------------- MODULE MCUniverse -----------------------------
(***************************************************************************)
(* Small-scope universe shared by the model-checking modules: stations,    *)
(* configuration, the set of abstract requests the environment may send,   *)
(* and constructors for abstract transmitted frames.                       *)
(***************************************************************************)
EXTENDS Mechanism, TLC

CONSTANT Scope   \* 1: quick universe, 2: thorough
CONSTANT Mtu     \* 74: EmitCap = 2, QueryCap = 2 (capacities exercised); 576: replayable on the real code

Own  == << 2, 0, 0, 0, 0, 1 >>
Peer == << 2, 0, 0, 0, 0, 2 >>
M1   == << 2, 0, 0, 0, 0, 11 >>
M2   == << 2, 0, 0, 0, 0, 12 >>
X    == << 2, 0, 0, 0, 0, 13 >>
Br   == << 2, 0, 0, 0, 0, 14 >>
P1   == << 2, 0, 0, 0, 0, 21 >>
P2   == << 2, 0, 0, 0, 0, 22 >>

Cfg == [ own |-> Own, mtu |-> Mtu, attrs |-> [wifi |-> 0],
         data |-> (14 :> [present |-> TRUE, kind |-> "lit", size |-> 3, salt |-> 0, bytes |-> << 7, 8, 9 >>]) ]

(* ------------------------------------------------------------ request universe *)
Rq(op, tos, es, ed, rs, rd, seq) ==
  [ hv |-> TRUE, tos |-> tos, op |-> op, ed |-> ed, es |-> es, rd |-> rd, rs |-> rs, seq |-> seq, len |-> 32, grew |-> "?",
    gen |-> 0, declared |-> 0, descs |-> << >>, ltype |-> 0, off |-> 0 ]

Desc(k, p, s, d) == [kind |-> k, pause |-> p, src |-> s, dst |-> d]

(* Scope 1: the quick universe; Scope 2 adds stations, generations and variants (thorough) *)
Discovers == { [Rq(OpDiscover, t, rs, BCAST, rs, BCAST, 5) EXCEPT !.gen = 3, !.len = 36] : t \in {0, 1}, rs \in {M1, M2} }
             \cup { [Rq(OpDiscover, 0, Br, BCAST, M1, BCAST, 5) EXCEPT !.gen = 0, !.len = 36],       \* bridged, generation 0
                    [Rq(OpDiscover, 2, X, BCAST, X, BCAST, 5) EXCEPT !.gen = 9, !.len = 36] }        \* foreign service, opcode 0
             \cup (IF Scope >= 2 THEN { [Rq(OpDiscover, t, es, BCAST, rs, BCAST, 5) EXCEPT !.gen = g, !.len = 36] :
                                         t \in {0, 1, 2}, rs \in {M1, M2, X}, es \in {Br}, g \in {0, 9} } ELSE {})
Resets    == { Rq(OpReset, 0, M1, BCAST, M1, BCAST, 0), Rq(OpReset, 1, M1, BCAST, M1, BCAST, 0),
               Rq(OpReset, 0, X, BCAST, X, BCAST, 0), Rq(OpReset, 2, X, BCAST, X, BCAST, 0) }
Probes    == { Rq(OpProbe, 0, P1, Own, P1, Own, 0), Rq(OpProbe, 0, P1, Own, P2, Own, 0), Rq(OpTrain, 0, Br, Own, P1, Own, 0),
               Rq(OpProbe, 0, P1, Peer, P1, Own, 0),      \* same key as the first, other destination (collision)
               Rq(OpProbe, 0, P2, Peer, P2, Peer, 0) }    \* for another station
             \cup (IF Scope >= 2 THEN { Rq(OpTrain, 0, P1, Own, P1, Own, 0),     \* same addresses as the first, other kind
                                        Rq(OpProbe, 1, P2, Own, P2, Own, 0) }    \* quick discovery has no Probe
                   ELSE {})

(* the descriptors a walk over the MTU-sized buffer sees: the carried ones, then whatever the  *)
(* fill byte (0) decodes to                                                                   *)
FillDesc == Desc(0, 0, << 0, 0, 0, 0, 0, 0 >>, << 0, 0, 0, 0, 0, 0 >>)
Walk(declared, carried) == [i \in 1..Min(declared, EmitCap(Mtu)) |-> IF i <= Len(carried) THEN carried[i] ELSE FillDesc]

EmitShapes == { << 0, << >> >>,
                << 1, << Desc(1, 2, Own, Peer) >> >>,
                << 2, << Desc(0, 0, Own, Peer), Desc(1, 1, P1, P2) >> >>,
                << 2, << Desc(3, 0, Own, Peer), Desc(1, 1, P1, P2) >> >>,
                << 65535, << Desc(1, 0, Own, Peer), Desc(1, 0, Own, Peer) >> >> }
Emits     == { [Rq(OpEmit, 0, rs, Own, rs, Own, 6) EXCEPT !.declared = dc[1], !.descs = Walk(dc[1], dc[2]), !.len = 34 + 14 * Len(dc[2])] :
                 rs \in {M1, X}, dc \in EmitShapes }
             \cup { [Rq(OpEmit, 0, M1, Own, M1, Own, 0) EXCEPT !.declared = 1, !.descs = Walk(1, << Desc(1, 2, Own, Peer) >>), !.len = 48] }
Queries   == { Rq(OpQuery, 0, M1, Own, M1, Own, 6), Rq(OpQuery, 0, Br, Own, M1, Own, 6), Rq(OpQuery, 0, X, Own, X, Own, 6),
               Rq(OpQuery, 2, M1, Own, M1, Own, 6) }
Larges    == { [Rq(OpQueryLarge, 0, M1, Own, M1, Own, 6) EXCEPT !.ltype = 14, !.off = o, !.len = 36] : o \in {0, 2, 3} }
             \cup { [Rq(OpQueryLarge, 0, M1, Own, M1, Own, 6) EXCEPT !.ltype = 99, !.len = 36],
                    [Rq(OpQueryLarge, 0, M1, Own, M1, Own, 0) EXCEPT !.ltype = 14, !.len = 36],
                    [Rq(OpQueryLarge, 1, X, Own, X, Own, 6) EXCEPT !.ltype = 14, !.off = 1, !.len = 36] }
Others    == { Rq(OpHello, 0, X, Own, X, Own, 1), Rq(OpAck, 0, X, Own, X, Own, 1), Rq(200, 2, X, Own, X, Own, 1) }
             \cup (IF Scope >= 2 THEN { Rq(op, t, X, Own, X, Own, 1) : op \in {OpHello, OpAck, OpCharge, 200}, t \in {0, 2} } ELSE {})

Reqs == Discovers \cup Resets \cup Probes \cup Emits \cup Queries \cup Larges \cup Others

=============================================================================
