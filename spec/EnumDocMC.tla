----------------------------- MODULE EnumDocMC -----------------------------
(***************************************************************************)
(* Beyond the listed properties: the enumeration engine's transition table *)
(* as coded (Automata!EnumNext) against the table documented in            *)
(* Documentation/lltd_automata_specification.md (Automata!EnumDoc).  TLC   *)
(* prints every cell in which they differ; the run is informational        *)
(* (bin/check XENUM), not a verdict on a listed property.                  *)
(***************************************************************************)
EXTENDS Automata, TLC

Cells == {<< s, e, c >> : s \in {0, 1, 2}, e \in {EnumComplete, EnumNotComplete, EnumHello, EnumNewSession}, c \in BOOLEAN}
Diff == {x \in Cells : EnumNext(x[1], x[2]) # EnumDoc(x[1], x[2], x[3])}
ASSUME PrintT(<< "ENUM-DOC-VS-CODE differing cells (state, event, new session complete)", Diff >>)

VARIABLE x
Spec == x = 0 /\ [][x' = x]_x
=============================================================================
