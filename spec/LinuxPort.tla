----------------------------- MODULE LinuxPort -----------------------------
(***************************************************************************)
(* C04, second sentence: what os/linux/lltd_port.c must supply for an      *)
(* interface record, and validation of the Hello the real port + core      *)
(* produce for it (LinuxPortTrace: events recorded with the real           *)
(* os/linux/lltd_port.c linked as the port and its libc calls wrapped).    *)
(*                                                                         *)
(* Derive(rec): address, MTU and type copied; link speed converted from    *)
(* bit/s to units of 100 bit/s; full duplex and loopback mapped to their   *)
(* characteristics bits; IPv4/IPv6 = the address the OS reports for this   *)
(* interface NAME (zero when it has none); machine name = the host name    *)
(* up to its first NUL.  32-bit quantities are pairs of 16-bit halves.     *)
(***************************************************************************)
EXTENDS Responder, Json, IOUtils, TLC, TLCExt

CONSTANT Primary

IFM_FDX == 16            \* 0x0010 in the medium word
IFF_LOOPBACK == 8
DuplexBit == 8192        \* 0x2000
LoopbackBit == 2048      \* 0x0800

(* (hi * 65536 + lo) \div 100 on halves, without leaving 31 bits *)
Div100(h) == LET qh == h[1] \div 100  rh == h[1] % 100 IN << qh, (rh * 65536 + h[2]) \div 100 >>

HasBit(x, b) == (x \div b) % 2 = 1
UpToNul(s) == LET Z == {i \in 1..Len(s) : s[i] = 0} IN IF Z = {} THEN s ELSE SubSeq(s, 1, (CHOOSE i \in Z : \A j \in Z : i <= j) - 1)

Derive(rec) ==
  [ mac |-> rec.mac,
    flags |-> (IF HasBit(rec.medium[2], IFM_FDX) THEN DuplexBit ELSE 0) + (IF HasBit(rec.flags[2], IFF_LOOPBACK) THEN LoopbackBit ELSE 0),
    iftype |-> rec.iftype,
    ipv4 |-> IF rec.have4 = 1 THEN rec.ipv4 ELSE << 0, 0, 0, 0 >>,
    ipv6 |-> IF rec.have6 = 1 THEN rec.ipv6 ELSE [i \in 1..16 |-> 0],
    speed |-> Div100(rec.speed),
    host |-> IF rec.hostfail = 1 THEN << >> ELSE UpToNul(rec.host),
    wifi |-> 0, wmode |-> 0, bssid |-> << >>, ssid |-> << >>, rate |-> 0, rssi |-> 0 ]

Log == ndJsonDeserialize(IOEnv.TRACE)
VARIABLE l
TraceInit == l = 1
TStep ==
  LET ev == Log[l] IN
  /\ l <= Len(Log)
  /\ IF ev.e = "lhello"
     THEN LET f == TxDecode(ev.b, ev.mac, ev.mtu) IN
          /\ ev.nsent = 1 /\ f.wf /\ f.op = OpHello
          /\ HelloAttrsOK(Derive(ev), f.tlvs, 0)
          /\ TLCSet(2, TLCGet(2) \cup {l})
     ELSE TRUE
  /\ l' = l + 1
TraceSpec == TraceInit /\ [][TStep]_l

ASSUME TLCSet(1, 0) /\ TLCSet(2, {})
Progress == TLCSet(1, Max(TLCGet(1), l))
Accepted ==
  IF TLCGet(1) = Len(Log) + 1
  THEN PrintT(<< "ACCEPTED", Len(Log), "EXERCISED", Cardinality(TLCGet(2)) >>)
  ELSE /\ PrintT(<< "REJECTED_AT", TLCGet(1), "LN", Log[TLCGet(1)].ln, "EXERCISED", Cardinality(TLCGet(2)) >>)
       /\ FALSE
=============================================================================
