----------------------------- MODULE AutomataMC -----------------------------
(***************************************************************************)
(* Small-scope state machine over the session table, the mapping engine    *)
(* and the tick, with RELATIVE clocks (ages clipped just above the         *)
(* thresholds) so that it is finite.  The table's bookkeeping fields       *)
(* (count, allComplete) are separate variables updated by the mechanism's  *)
(* own rules, so C16's consistency is a checked invariant and not a        *)
(* definition; the dictionary operators are those of Automata.tla, the     *)
(* same ones AutomataTrace compares the real code with.                    *)
(***************************************************************************)
EXTENDS Automata, TLC

CONSTANTS Keys, Cap

VARIABLES tbl,        \* set of [key, gen, complete, last] with last = AGE in seconds (relative clock), clipped at 62
          count, allc, \* bookkeeping as the mechanism keeps it
          ms, mAge,   \* mapping state and seconds since its last input (clipped at 31)
          fAge        \* seconds since the last frame (-1: none yet; clipped at 31)
vars == << tbl, count, allc, ms, mAge, fAge >>

T == << 0, 5, 30 >>
Clip(x, m) == IF x > m THEN m ELSE x

Init == tbl = {} /\ count = 0 /\ allc = TRUE /\ ms = 0 /\ mAge = 0 /\ fAge = 0 - 1

(* ages instead of timestamps: "now" is 0 and an entry's `last' is -age; TAdd etc. take now = 0 *)
Aged(t, d) == {[e EXCEPT !.last = 0 - Clip((0 - e.last) + d, 62)] : e \in t}

Add(k) ==
  /\ tbl' = TAdd(tbl, k, 1, 0, Cap)
  /\ IF Find(tbl, k, 1) # {} THEN UNCHANGED << count, allc >>
     ELSE IF Cardinality(tbl) >= Cap THEN UNCHANGED << count, allc >>
     ELSE count' = count + 1 /\ allc' = FALSE
  /\ UNCHANGED << ms, mAge, fAge >>

Recompute(t) == t = {} \/ AllComplete(t)

Remove(k) ==
  /\ tbl' = TRemove(tbl, k, 1)
  /\ count' = IF Find(tbl, k, 1) # {} /\ count > 0 THEN count - 1 ELSE count
  /\ allc' = Recompute(tbl')
  /\ UNCHANGED << ms, mAge, fAge >>

MarkComplete(k) ==
  /\ tbl' = TComplete(tbl, k, 1) /\ allc' = Recompute(tbl') /\ UNCHANGED << count, ms, mAge, fAge >>

Clear == tbl' = {} /\ count' = 0 /\ allc' = TRUE /\ UNCHANGED << ms, mAge, fAge >>

Advance(d) ==
  /\ tbl' = Aged(tbl, d)
  /\ mAge' = Clip(mAge + d, 31) /\ fAge' = (IF fAge < 0 THEN fAge ELSE Clip(fAge + d, 31))
  /\ UNCHANGED << count, allc, ms >>

(* a frame through the frame path: mapping step, inactivity timer restarted; Quiescent clears the table *)
Frame(op) ==
  /\ \E s1 \in MappingStep(ms, op, mAge, T) :
       /\ ms' = s1
       /\ IF ms # 0 /\ s1 = 0 THEN tbl' = {} /\ count' = 0 /\ allc' = TRUE
          ELSE UNCHANGED << tbl, count, allc >>
  /\ mAge' = 0 /\ fAge' = 0

Tick ==
  LET inactive == fAge >= 30
      t1 == IF inactive THEN {} ELSE tbl
      t2 == TExpire(t1, 0)
  IN /\ ms' = (IF inactive THEN 0 ELSE ms)
     /\ mAge' = (IF inactive THEN 0 ELSE mAge)
     /\ fAge' = (IF inactive THEN 0 - 1 ELSE fAge)
     /\ tbl' = t2
     /\ count' = (IF inactive THEN 0 ELSE count) - Cardinality(t1 \ t2)
     /\ allc' = Recompute(t2)

Next == \/ \E k \in Keys : Add(k) \/ Remove(k) \/ MarkComplete(k)
        \/ Clear \/ Tick
        \/ \E d \in {1, 29, 30, 60, 61} : Advance(d)
        \/ \E op \in {OpDiscover, OpEmit, OpReset, OpQuery, EmissionDone} : Frame(op)

Spec == Init /\ [][Next]_vars

(* C16 *)
CountOK == count = Cardinality(tbl) /\ count <= Cap
UniqueOK == Unique(tbl)
AllCompleteOK == allc <=> AllComplete(tbl)
(* expiry: after a tick nothing older than 60 s is left *)
NoStale == [][ (tbl' = TExpire(IF fAge >= 30 THEN {} ELSE tbl, 0) /\ mAge' = (IF fAge >= 30 THEN 0 ELSE mAge) /\ count' <= count /\ ms' \in {0, ms})
                 => \A e \in tbl' : 0 - e.last <= Expiry ]_vars
(* C14: 30 s without a frame: the next tick ends the session and empties the table *)
InactiveEnds == [][ (fAge >= 30 /\ fAge' = 0 - 1) => (ms' = 0 /\ tbl' = {}) ]_vars
(* a session is only ever active after a frame has been seen and not yet timed out by the tick *)
ActiveImpliesFrame == ms # 0 => fAge >= 0
=============================================================================
