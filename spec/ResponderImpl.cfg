SPECIFICATION ImplSpec
CONSTANT Mtu = 74
CONSTANT Scope = 1
CONSTANT Check = {"C02","C03","C05","C06","C07","C08","C09","C18"}
INVARIANT Refines
VIEW ImplView
CHECK_DEADLOCK FALSE
