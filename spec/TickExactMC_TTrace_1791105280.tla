---- MODULE TickExactMC_TTrace_1791105280 ----
EXTENDS Sequences, TLCExt, Toolbox, Naturals, TLC, TickExactMC

_expression ==
    LET TickExactMC_TEExpression == INSTANCE TickExactMC_TEExpression
    IN TickExactMC_TEExpression!expression
----

_trace ==
    LET TickExactMC_TETrace == INSTANCE TickExactMC_TETrace
    IN TickExactMC_TETrace!trace
----

_inv ==
    ~(
        TLCGet("level") = Len(_TETrace)
        /\
        lastIn = (124)
        /\
        f = ([ms |-> 1, live |-> {[key |-> 1, gen |-> 1, last |-> 92, complete |-> TRUE], [key |-> 2, gen |-> 1, last |-> 124, complete |-> FALSE]}, es |-> 1, hto |-> 124749, bto |-> 124929, lasttx |-> 124629, ni |-> <<0, 45>>, r |-> <<0, 0>>, begun |-> 1, ctc |-> 0, cdl |-> -1, inact |-> 154, clamped |-> FALSE])
        /\
        now = (124629)
        /\
        gap = (122319)
        /\
        why = ("ok")
        /\
        sentAt = (124629)
    )
----

_init ==
    /\ f = _TETrace[1].f
    /\ now = _TETrace[1].now
    /\ why = _TETrace[1].why
    /\ gap = _TETrace[1].gap
    /\ sentAt = _TETrace[1].sentAt
    /\ lastIn = _TETrace[1].lastIn
----

_next ==
    /\ \E i,j \in DOMAIN _TETrace:
        /\ \/ /\ j = i + 1
              /\ i = TLCGet("level")
        /\ f  = _TETrace[i].f
        /\ f' = _TETrace[j].f
        /\ now  = _TETrace[i].now
        /\ now' = _TETrace[j].now
        /\ why  = _TETrace[i].why
        /\ why' = _TETrace[j].why
        /\ gap  = _TETrace[i].gap
        /\ gap' = _TETrace[j].gap
        /\ sentAt  = _TETrace[i].sentAt
        /\ sentAt' = _TETrace[j].sentAt
        /\ lastIn  = _TETrace[i].lastIn
        /\ lastIn' = _TETrace[j].lastIn

\* Uncomment the ASSUME below to write the states of the error trace
\* to the given file in Json format. Note that you can pass any tuple
\* to `JsonSerialize`. For example, a sub-sequence of _TETrace.
    \* ASSUME
    \*     LET J == INSTANCE Json
    \*         IN J!JsonSerialize("TickExactMC_TTrace_1791105280.json", _TETrace)

=============================================================================

 Note that you can extract this module `TickExactMC_TEExpression`
  to a dedicated file to reuse `expression` (the module in the 
  dedicated `TickExactMC_TEExpression.tla` file takes precedence 
  over the module `TickExactMC_TEExpression` below).

---- MODULE TickExactMC_TEExpression ----
EXTENDS Sequences, TLCExt, Toolbox, Naturals, TLC, TickExactMC

expression == 
    [
        \* To hide variables of the `TickExactMC` spec from the error trace,
        \* remove the variables below.  The trace will be written in the order
        \* of the fields of this record.
        f |-> f
        ,now |-> now
        ,why |-> why
        ,gap |-> gap
        ,sentAt |-> sentAt
        ,lastIn |-> lastIn
        
        \* Put additional constant-, state-, and action-level expressions here:
        \* ,_stateNumber |-> _TEPosition
        \* ,_fUnchanged |-> f = f'
        
        \* Format the `f` variable as Json value.
        \* ,_fJson |->
        \*     LET J == INSTANCE Json
        \*     IN J!ToJson(f)
        
        \* Lastly, you may build expressions over arbitrary sets of states by
        \* leveraging the _TETrace operator.  For example, this is how to
        \* count the number of times a spec variable changed up to the current
        \* state in the trace.
        \* ,_fModCount |->
        \*     LET F[s \in DOMAIN _TETrace] ==
        \*         IF s = 1 THEN 0
        \*         ELSE IF _TETrace[s].f # _TETrace[s-1].f
        \*             THEN 1 + F[s-1] ELSE F[s-1]
        \*     IN F[_TEPosition - 1]
    ]

=============================================================================



Parsing and semantic processing can take forever if the trace below is long.
 In this case, it is advised to uncomment the module below to deserialize the
 trace from a generated binary file.

\*
\*---- MODULE TickExactMC_TETrace ----
\*EXTENDS IOUtils, TLC, TickExactMC
\*
\*trace == IODeserialize("TickExactMC_TTrace_1791105280.bin", TRUE)
\*
\*=============================================================================
\*

---- MODULE TickExactMC_TETrace ----
EXTENDS TLC, TickExactMC

trace == 
    <<
    ([lastIn |-> 1,f |-> [ms |-> 0, live |-> {}, es |-> 0, hto |-> -1, bto |-> -1, lasttx |-> 0, ni |-> <<0, 45>>, r |-> <<0, 0>>, begun |-> 0, ctc |-> 0, cdl |-> -1, inact |-> 0, clamped |-> FALSE],now |-> 1000,gap |-> -1,why |-> "ok",sentAt |-> -1]),
    ([lastIn |-> 1,f |-> [ms |-> 0, live |-> {}, es |-> 0, hto |-> -1, bto |-> -1, lasttx |-> 0, ni |-> <<0, 45>>, r |-> <<0, 0>>, begun |-> 0, ctc |-> 0, cdl |-> -1, inact |-> 0, clamped |-> FALSE],now |-> 1299,gap |-> -1,why |-> "ok",sentAt |-> -1]),
    ([lastIn |-> 1,f |-> [ms |-> 1, live |-> {[key |-> 1, gen |-> 1, last |-> 1, complete |-> FALSE]}, es |-> 1, hto |-> 1419, bto |-> 1599, lasttx |-> 0, ni |-> <<0, 45>>, r |-> <<0, 0>>, begun |-> 0, ctc |-> 0, cdl |-> -1, inact |-> 31, clamped |-> FALSE],now |-> 1309,gap |-> -1,why |-> "ok",sentAt |-> -1]),
    ([lastIn |-> 1,f |-> [ms |-> 1, live |-> {[key |-> 1, gen |-> 1, last |-> 1, complete |-> FALSE]}, es |-> 1, hto |-> 1419, bto |-> 1599, lasttx |-> 0, ni |-> <<0, 45>>, r |-> <<0, 0>>, begun |-> 0, ctc |-> 0, cdl |-> -1, inact |-> 31, clamped |-> FALSE],now |-> 2310,gap |-> -1,why |-> "ok",sentAt |-> -1]),
    ([lastIn |-> 2,f |-> [ms |-> 1, live |-> {[key |-> 1, gen |-> 1, last |-> 1, complete |-> FALSE]}, es |-> 1, hto |-> 2430, bto |-> 2610, lasttx |-> 2310, ni |-> <<0, 45>>, r |-> <<0, 0>>, begun |-> 1, ctc |-> 0, cdl |-> -1, inact |-> 32, clamped |-> FALSE],now |-> 2310,gap |-> -1,why |-> "ok",sentAt |-> 2310]),
    ([lastIn |-> 2,f |-> [ms |-> 1, live |-> {[key |-> 1, gen |-> 1, last |-> 1, complete |-> TRUE]}, es |-> 1, hto |-> 2430, bto |-> 2610, lasttx |-> 2310, ni |-> <<0, 45>>, r |-> <<0, 0>>, begun |-> 1, ctc |-> 0, cdl |-> -1, inact |-> 32, clamped |-> FALSE],now |-> 2310,gap |-> -1,why |-> "ok",sentAt |-> 2310]),
    ([lastIn |-> 2,f |-> [ms |-> 0, live |-> {}, es |-> 0, hto |-> -1, bto |-> -1, lasttx |-> 2310, ni |-> <<0, 45>>, r |-> <<0, 0>>, begun |-> 0, ctc |-> 0, cdl |-> -1, inact |-> 32, clamped |-> FALSE],now |-> 2310,gap |-> -1,why |-> "ok",sentAt |-> 2310]),
    ([lastIn |-> 2,f |-> [ms |-> 0, live |-> {}, es |-> 0, hto |-> -1, bto |-> -1, lasttx |-> 2310, ni |-> <<0, 45>>, r |-> <<0, 0>>, begun |-> 0, ctc |-> 0, cdl |-> -1, inact |-> 32, clamped |-> FALSE],now |-> 2610,gap |-> -1,why |-> "ok",sentAt |-> 2310]),
    ([lastIn |-> 2,f |-> [ms |-> 0, live |-> {}, es |-> 0, hto |-> -1, bto |-> -1, lasttx |-> 2310, ni |-> <<0, 45>>, r |-> <<0, 0>>, begun |-> 0, ctc |-> 0, cdl |-> -1, inact |-> 32, clamped |-> FALSE],now |-> 63610,gap |-> -1,why |-> "ok",sentAt |-> 2310]),
    ([lastIn |-> 2,f |-> [ms |-> 0, live |-> {}, es |-> 0, hto |-> -1, bto |-> -1, lasttx |-> 2310, ni |-> <<0, 45>>, r |-> <<0, 0>>, begun |-> 0, ctc |-> 0, cdl |-> -1, inact |-> 32, clamped |-> FALSE],now |-> 92610,gap |-> -1,why |-> "ok",sentAt |-> 2310]),
    ([lastIn |-> 92,f |-> [ms |-> 1, live |-> {[key |-> 1, gen |-> 1, last |-> 92, complete |-> TRUE]}, es |-> 2, hto |-> 92730, bto |-> 92910, lasttx |-> 2310, ni |-> <<0, 45>>, r |-> <<0, 0>>, begun |-> 0, ctc |-> 0, cdl |-> -1, inact |-> 122, clamped |-> FALSE],now |-> 92620,gap |-> -1,why |-> "ok",sentAt |-> 2310]),
    ([lastIn |-> 92,f |-> [ms |-> 1, live |-> {[key |-> 1, gen |-> 1, last |-> 92, complete |-> TRUE]}, es |-> 2, hto |-> 92730, bto |-> 92910, lasttx |-> 2310, ni |-> <<0, 45>>, r |-> <<0, 0>>, begun |-> 0, ctc |-> 0, cdl |-> -1, inact |-> 122, clamped |-> FALSE],now |-> 123620,gap |-> -1,why |-> "ok",sentAt |-> 2310]),
    ([lastIn |-> 92,f |-> [ms |-> 1, live |-> {[key |-> 1, gen |-> 1, last |-> 92, complete |-> TRUE]}, es |-> 2, hto |-> 92730, bto |-> 92910, lasttx |-> 2310, ni |-> <<0, 45>>, r |-> <<0, 0>>, begun |-> 0, ctc |-> 0, cdl |-> -1, inact |-> 122, clamped |-> FALSE],now |-> 124619,gap |-> -1,why |-> "ok",sentAt |-> 2310]),
    ([lastIn |-> 124,f |-> [ms |-> 1, live |-> {[key |-> 1, gen |-> 1, last |-> 92, complete |-> TRUE], [key |-> 2, gen |-> 1, last |-> 124, complete |-> FALSE]}, es |-> 1, hto |-> 124749, bto |-> 124929, lasttx |-> 124629, ni |-> <<0, 45>>, r |-> <<0, 0>>, begun |-> 1, ctc |-> 0, cdl |-> -1, inact |-> 154, clamped |-> FALSE],now |-> 124629,gap |-> 122319,why |-> "ok",sentAt |-> 124629])
    >>
----


=============================================================================

---- CONFIG TickExactMC_TTrace_1791105280 ----

INVARIANT
    _inv

CHECK_DEADLOCK
    \* CHECK_DEADLOCK off because of PROPERTY or INVARIANT above.
    FALSE

INIT
    _init

NEXT
    _next

CONSTANT
    _TETrace <- _trace

ALIAS
    _expression
=============================================================================
\* Generated on Sun Oct 04 09:14:41 UTC 2026