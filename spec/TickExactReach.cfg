SPECIFICATION Spec
INVARIANT NeverTwice
CONSTRAINT Horizon
CHECK_DEADLOCK FALSE
