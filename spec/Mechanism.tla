----------------------------- MODULE Mechanism -----------------------------
(***************************************************************************)
(* The deterministic MECHANISM of lltdBlock.c as the code has it (after    *)
(* the fix: commits recorded in known_findings.json), as constant-level    *)
(* operators over a configuration c = [own, mtu, data, ...]: LIFO          *)
(* observation list with the (Ethernet source, real source) de-duplication *)
(* key, the Discover pre-step and set_active_mapper / parseQuery takeover  *)
(* rules exactly as coded, maximal chunks, the descriptor clamp, the list  *)
(* cap.                                                                    *)
(*                                                                         *)
(* Used twice: ResponderImpl instantiates it on the small universe (TLC    *)
(* checks that every step is an allowed step of the general specification  *)
(* Responder, and dumps the transition cover G1); ResponderTrace compares  *)
(* it, state for state and frame for frame, with recorded executions of    *)
(* the real code (extension check XIMPL: the code follows THIS mechanism,  *)
(* not merely some behaviour the general specification allows).            *)
(***************************************************************************)
EXTENDS Responder

(* ------------------------------------------------------------ abstract frames *)
Fr(op, tos, es, ed, rs, rd, seq, n) ==
  [ n |-> n, wf |-> TRUE, why |-> "", op |-> op, tos |-> tos, ed |-> ed, es |-> es, rd |-> rd, rs |-> rs, seq |-> seq,
    gen |-> 0 - 1, cur |-> << >>, app |-> << >>, tlvs |-> << >>, more |-> FALSE, descs |-> << >>, pay |-> << >> ]
T(f) == [k |-> "t", rc |-> 0, f |-> f]
S(ms) == [k |-> "s", ms |-> ms]

SeeMax == 1024

MInit == [ known |-> FALSE, real |-> << >>, app |-> << >>, seq |-> 0, genT |-> 0, genQ |-> 0,
           see |-> << >>, icon |-> FALSE ]

Matches(s, a) == ~s.known \/ s.real = a
SetActive(s, real, app) == IF s.known THEN s ELSE [s EXCEPT !.known = TRUE, !.real = real, !.app = app]

(* ---- answerHello *)
MHello(c, s0, r) ==
  LET s1 == [SetActive(s0, r.rs, r.es) EXCEPT !.seq = r.seq]
      g  == IF r.tos = 1 THEN s1.genQ ELSE s1.genT
      f  == [Fr(OpHello, r.tos, c.own, BCAST, c.own, BCAST, 0, 60) EXCEPT !.gen = g, !.cur = r.rs, !.app = r.es]
  IN [st |-> s1, out |-> << T(f) >>]

(* ---- parseEmit / sendProbeMsg *)
RECURSIVE EmitOut(_, _, _, _, _)
EmitOut(c, s, r, i, n) ==
  IF i > n THEN << >>
  ELSE LET d == r.descs[i]
           one == IF d.kind \in {0, 1}
                  THEN << S(d.pause), T(Fr(IF d.kind = 1 THEN OpProbe ELSE OpTrain, 0, d.src, d.dst, c.own, d.dst, 0, 32)) >>
                       \o (IF i = n THEN << T(Fr(OpAck, 0, c.own, s.app, c.own, s.real, s.seq, 32)) >> ELSE << >>)
                  ELSE << >>
       IN one \o EmitOut(c, s, r, i + 1, n)

MEmit(c, s0, r) ==
  LET s1 == SetActive([s0 EXCEPT !.seq = r.seq], r.rs, r.es)
      n  == Min(r.declared, EmitCap(c.mtu))
  IN [st |-> s1, out |-> EmitOut(c, s1, r, 1, n)]

(* ---- parseProbe *)
MProbe(c, s, r) ==
  LET new == [rs |-> r.rs, es |-> r.es, ed |-> r.ed, ty |-> IF r.op = OpProbe THEN 1 ELSE 0]
      dup == \E i \in 1..Len(s.see) : s.see[i].es = new.es /\ s.see[i].rs = new.rs
  IN [st |-> IF r.rd # c.own \/ dup \/ Len(s.see) >= SeeMax THEN s ELSE [s EXCEPT !.see = << new >> \o s.see], out |-> << >>]

(* ---- parseQuery *)
MQuery(c, s0, r) ==
  LET s1 == [s0 EXCEPT !.seq = r.seq, !.known = TRUE, !.real = r.rs, !.app = r.es]
      dest == IF r.rs = r.es THEN r.rs ELSE BCAST
      n == Min(Len(s1.see), QueryCap(c.mtu))
      f == [Fr(OpQueryResp, 0, c.own, dest, c.own, dest, r.seq, 34 + 20 * n) EXCEPT
              !.more = Len(s1.see) > n, !.descs = [i \in 1..n |-> s1.see[i]]]
  IN [st |-> [s1 EXCEPT !.see = SubSeq(s1.see, n + 1, Len(s1.see))], out |-> << T(f) >>]

(* ---- parseQueryLargeTlv / sendLargeTlvResponse *)
MLarge(c, s0, r) ==
  IF r.seq = 0 THEN [st |-> s0, out |-> << >>]
  ELSE
  LET s1 == SetActive([s0 EXCEPT !.seq = r.seq], r.rs, r.es)
      d == DataFor(c, r.ltype)
      s2 == IF r.ltype = 14 /\ d.present THEN [s1 EXCEPT !.icon = TRUE] ELSE s1     \* cached iff the platform supplied one
      cap == LargeCap(c.mtu)
      len == IF d.size > r.off + cap THEN cap ELSE IF d.size > r.off THEN d.size - r.off ELSE 0
      dest == IF r.rs = r.es THEN r.rs ELSE BCAST
      f == [Fr(OpQueryLargeResp, 0, c.own, dest, c.own, dest, r.seq, 34 + len) EXCEPT
              !.more = d.size > r.off + cap, !.pay = [k \in 1..len |-> LData(d, r.off + k - 1)]]
  IN [st |-> s2, out |-> << T(f) >>]

(* ---- parseFrame *)
MStep(c, s0, r) ==
  LET pre == r.op = OpDiscover /\ r.tos \in {0, 1}
      reject == pre /\ ~Matches(s0, r.rs)
      s1 == IF pre /\ ~reject
            THEN LET a == SetActive(s0, r.rs, r.es) IN IF r.tos = 1 THEN [a EXCEPT !.genQ = r.gen] ELSE [a EXCEPT !.genT = r.gen]
            ELSE s0
      silent == [st |-> s1, out |-> << >>]
  IN IF reject THEN [st |-> s0, out |-> << >>]
     ELSE IF r.tos = 0 THEN
       CASE r.op = OpDiscover -> LET h == MHello(c, s1, r) IN [st |-> h.st, out |-> << S(10) >> \o h.out]
         [] r.op = OpEmit -> MEmit(c, s1, r)
         [] r.op \in {OpProbe, OpTrain} -> MProbe(c, s1, r)
         [] r.op = OpQuery -> MQuery(c, s1, r)
         [] r.op = OpQueryLarge -> MLarge(c, s1, r)
         [] r.op = OpReset -> [st |-> MInit, out |-> << >>]
         [] OTHER -> silent
     ELSE IF r.tos = 1 THEN
       CASE r.op = OpDiscover -> MHello(c, s1, r)
         [] r.op = OpQueryLarge -> MLarge(c, s1, r)
         [] r.op = OpReset -> [st |-> [s1 EXCEPT !.known = FALSE, !.genQ = 0], out |-> << >>]
         [] OTHER -> silent
     ELSE silent

=============================================================================
