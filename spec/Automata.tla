----------------------------- MODULE Automata -----------------------------
(***************************************************************************)
(* The automata of lltdAutomata.c as the properties C11..C16 state them:   *)
(* mapping engine, session automaton, session table (dictionary model),    *)
(* RepeatBand arithmetic, the session-event classifier.  Pure operators;   *)
(* AutomataMC explores them as a state machine, AutomataTrace validates    *)
(* recorded calls of the real functions against them.                      *)
(***************************************************************************)
EXTENDS Wire, Integers

(* ------------------------------------------------------------ C14: mapping engine *)
Quiescent == 0  Command == 1  EmitSt == 2
EmissionDone == 0 - 3
TimeoutIn == 0 - 1

MapNext(s, i) ==
  CASE s = Quiescent /\ i = OpDiscover -> Command
    [] s = Command /\ i = OpEmit -> EmitSt
    [] s = EmitSt /\ i = EmissionDone -> Command
    [] s \in {Command, EmitSt} /\ i \in {OpReset, TimeoutIn} -> Quiescent
    [] OTHER -> s

(* T: state -> timeout in seconds (0 = none).  An active state left without input for longer   *)
(* than its timeout falls back to idle on the next input; only a Discover may reopen a session *)
(* in that same step (freedom: the code drops the input).                                      *)
MappingStep(s, i, elapsed, T) ==
  IF T[s + 1] # 0 /\ elapsed > T[s + 1]
  THEN {Quiescent} \cup (IF i = OpDiscover THEN {Command} ELSE {})
  ELSE {MapNext(s, i)}

(* C15: "expiry of the inactivity timeout returns every state to Nascent" - every state other than Nascent   *)
(* itself has an inactivity timeout that can expire (0 would mean never); the value is the implementation's   *)
SessionTimeoutsOK(T) == T[1] > 0 /\ T[3] > 0 /\ T[4] > 0      \* Temporary, Pending, Complete (Nascent is T[2])
MappingTimeoutsOK(T) == T[1] = 0 /\ T[2] > 0 /\ T[2] <= 30 /\ T[3] > 0 /\ T[3] <= 30

(* ------------------------------------------------------------ C15: session automaton *)
Temporary == 0  Nascent == 1  Pending == 2  Complete == 3
SessConflicting == 0  SessReset == 1  SessNoAck == 2  SessAcking == 3
SessNoAckChg == 4  SessAckingChg == 5  SessTopoReset == 6  SessHello == 7

SessNext(s, e) ==
  CASE e = SessReset -> Nascent
    [] s = Nascent /\ e = SessNoAck -> Pending
    [] s = Nascent /\ e = SessAcking -> Complete
    [] s = Nascent /\ e = SessConflicting -> Temporary
    [] s = Pending /\ e \in {SessAcking, SessAckingChg} -> Complete
    [] s = Complete /\ e = SessNoAckChg -> Pending
    [] s = Temporary /\ e \in {SessHello, SessTopoReset} -> Nascent
    [] OTHER -> s

(* expiry of the inactivity timeout returns every state to Nascent - and that is where the step ends: *)
(* unlike C14, the statement grants no "may reopen in the same step" (the late event is dropped)       *)
SessionStep(s, e, elapsed, T) ==
  IF T[s + 1] # 0 /\ elapsed > T[s + 1] THEN {Nascent}
  ELSE {SessNext(s, e)}

(* ------------------------------------------------------------ enumeration engine (beyond the listed properties) *)
(* the transition table of switch_state_enumeration AS CODED: 0 Quiescent, 1 Pausing, 2 Wait;             *)
(* events 0 table complete, 1 table not complete, 2 Hello, 3 new session.  No timeouts are applied.        *)
EnumComplete == 0  EnumNotComplete == 1  EnumHello == 2  EnumNewSession == 3
EnumNext(s, e) ==
  CASE s = 0 /\ e \in {EnumNotComplete, EnumNewSession} -> 1
    [] s = 1 /\ e = EnumComplete -> 2
    [] s = 2 /\ e \in {EnumNotComplete, EnumNewSession} -> 1
    [] s = 2 /\ e = EnumComplete -> 0
    [] OTHER -> s

(* the same table as DOCUMENTED (Documentation/lltd_automata_specification.md, transitions 0-11), with the  *)
(* "new session" trigger split by whether that session is already complete                                *)
EnumDoc(s, e, newComplete) ==
  CASE s = 0 /\ e = EnumNewSession -> (IF newComplete THEN 2 ELSE 1)       \* 0, 2
    [] s = 1 /\ e = EnumComplete -> 2                                      \* 1
    [] s = 2 /\ e = EnumNewSession -> (IF newComplete THEN 2 ELSE 1)       \* 8, 9
    [] OTHER -> s                                                          \* 3-7 stay in Pausing; 10, 11 are the tick's table-empty rule

(* ------------------------------------------------------------ C16: session table *)
(* dictionary: a set of entries [key, gen, complete, last]; at most one per (key, gen), <= Cap *)
TableCap == 16
Expiry == 60

Find(tbl, key, gen) == {e \in tbl : e.key = key /\ e.gen = gen}
TAdd(tbl, key, gen, now, cap) ==
  IF Find(tbl, key, gen) # {} THEN {[e EXCEPT !.last = IF e.key = key /\ e.gen = gen THEN now ELSE e.last] : e \in tbl}
  ELSE IF Cardinality(tbl) >= cap THEN tbl
  ELSE tbl \cup {[key |-> key, gen |-> gen, complete |-> FALSE, last |-> now]}
TRemove(tbl, key, gen) == tbl \ Find(tbl, key, gen)
TComplete(tbl, key, gen) == {[e EXCEPT !.complete = IF e.key = key /\ e.gen = gen THEN TRUE ELSE e.complete] : e \in tbl}
TExpire(tbl, now) == {e \in tbl : ~(now > e.last + Expiry)}
AllComplete(tbl) == \A e \in tbl : e.complete
Unique(tbl) == \A a, b \in tbl : (a.key = b.key /\ a.gen = b.gen) => a = b

(* ------------------------------------------------------------ C13: RepeatBand *)
NMAX == 10000  ALPHA == 45  BETA == 2  GAMMA == 10  TXC == 4

(* r is given as two 16-bit halves (TLC integers are 32-bit).  ALPHA * r^2 >= NMAX for every   *)
(* r >= 15 (Lemmas.tla, discharged by Apalache over unbounded integers), so the product is     *)
(* only ever computed for r < 15.                                                              *)
NiNext(prev, rhi, rlo, begun) ==
  IF (rhi > 0 \/ rlo > 0) /\ begun
  THEN (IF rhi > 0 \/ rlo >= 15 THEN NMAX ELSE Min(NMAX, ALPHA * rlo * rlo))
  ELSE prev

(* the load formula: ceil(TXC * Ni * 20 / (3 * GAMMA)) milliseconds *)
HelloIntervalMin(ni) == (TXC * ni * 20 + 3 * GAMMA - 1) \div (3 * GAMMA)

(* ------------------------------------------------------------ C11: classifier *)
(* the session table as the classifier sees it: set of [key (mapper address), gen, seq] *)
Stations(pre, fill, len) ==
  LET count == W16(pre, fill, 35)
      held  == IF len >= 36 THEN Min(count, (len - 36) \div 6) ELSE 0
  IN {A6(pre, fill, 37 + 6 * (i - 1)) : i \in 1..held}

Classify(pre, fill, len, table, own) ==
  LET op == At(pre, fill, 18)
      count == W16(pre, fill, 35)
      st == Stations(pre, fill, len)
      rs == A6(pre, fill, 25)
      gen == W16(pre, fill, 33)
      xid == W16(pre, fill, 31)
      chgd == \E e \in table : e.key = rs /\ e.gen = gen /\ e.seq # xid
      acks == IF st = {} THEN {TRUE, FALSE}          \* the statement speaks of non-empty lists only
              ELSE {own \in st}
      none == {0 - 1}
  IN IF len < 32 THEN none
     ELSE CASE op = OpReset -> IF A6(pre, fill, 19) = BCAST THEN {SessTopoReset} ELSE {SessReset}
            [] op = OpHello -> {SessHello}
            [] op = OpDiscover -> IF len < 36 THEN none \cup {SessNoAck, SessAcking}
                                  ELSE {IF a THEN (IF chgd THEN SessAckingChg ELSE SessAcking)
                                             ELSE (IF chgd THEN SessNoAckChg ELSE SessNoAck) : a \in acks}
            [] OTHER -> none

(* ------------------------------------------------------------ exact tick and frame flow (XTICK) *)
(* charge counter (beyond the listed properties, "XGLUE"): a Charge frame increments it and (re)starts a 1 s   *)
(* timeout; the tick that finds the timeout expired - or ends the session for inactivity - resets it to 0     *)
CtcDue(f, nows) == f.cdl >= 0 /\ nows >= f.cdl
CtcAfterTick(c, f, nows, ended) == IF ended \/ CtcDue(f, nows) THEN 0 ELSE c
CdlAfterTick(f, nows, ended) == IF ended \/ CtcDue(f, nows) THEN 0 - 1 ELSE f.cdl


RInc(r) == IF r[2] < 65535 THEN << r[1], r[2] + 1 >> ELSE << r[1] + 1, 0 >>

(* ---------------------------------------------------------------- XTICK: the tick, value for value          *)
(* Beyond the listed properties: automata_tick as a deterministic function of the state the previous event     *)
(* logged and of the clock - inactivity timer, charge timer, 60 s sweep, table-status update of the           *)
(* enumeration engine, Hello deadline (send / suppress to last transmit + 1 s / re-arm at                      *)
(* max(load interval, 1 s)), block end (count formula, r cleared, next block in 300 ms, Hello deadline         *)
(* re-chosen from the load interval).  Every field the tick leaves behind must equal the model's.             *)
BlockMs == 300
MinGapMs == 1000
LoadInterval(ni) == Max(HelloIntervalMin(ni), 6)            \* at least one frame time (20/3 ms, truncated)
TickExact(f, now) ==
  LET nows == now \div 1000
      fire == f.inact # 0 /\ nows >= f.inact
      ctc1 == IF fire \/ CtcDue(f, nows) THEN 0 ELSE f.ctc
      tbl2 == TExpire(IF fire THEN {} ELSE f.live, nows)
      es1 == IF f.es = 0 THEN 0 ELSE IF tbl2 = {} THEN 0
             ELSE IF AllComplete(tbl2) THEN EnumNext(f.es, EnumComplete) ELSE EnumNext(f.es, EnumNotComplete)
      cleared == f.es # 0 /\ tbl2 = {}
      hto1 == IF cleared THEN 0 - 1 ELSE f.hto
      bto1 == IF cleared THEN 0 - 1 ELSE f.bto
      begun1 == IF cleared THEN 0 ELSE f.begun
      due == es1 = 1 /\ hto1 >= 0 /\ now >= hto1
      supp == due /\ f.lasttx > 0 /\ now - f.lasttx < MinGapMs
      send == due /\ ~supp
      ni0 == f.ni[2]
      hto2 == IF supp THEN f.lasttx + MinGapMs ELSE IF send THEN now + Max(LoadInterval(ni0), MinGapMs) ELSE hto1
      begun2 == IF send THEN 1 ELSE begun1
      es2 == IF send THEN EnumNext(1, EnumHello) ELSE es1
      blk == es1 = 1 /\ bto1 >= 0 /\ now >= bto1
      ni3 == IF blk THEN NiNext(ni0, f.r[1], f.r[2], begun2 = 1) ELSE ni0
  IN [ es |-> es2, live |-> tbl2, ctc |-> ctc1, sent |-> send,
       hto |-> IF blk THEN now + LoadInterval(ni3) ELSE hto2,
       bto |-> IF blk THEN now + BlockMs ELSE bto1,
       lasttx |-> IF send THEN now ELSE f.lasttx,
       ni |-> << 0, ni3 >>, r |-> IF blk THEN << 0, 0 >> ELSE f.r, begun |-> begun2,
       inact |-> IF fire THEN 0 ELSE f.inact ]

(* the state a frame of the Darwin flow hands to its closing tick (see AutomataTrace!GlueExactOK): f the state  *)
(* before the frame, op the opcode, k / gen the session key of a Discover, acking whether the Discover          *)
(* acknowledged this station, ended whether the mapping engine fell back to idle on this frame                 *)
FrameExact(f, op, k, gen, acking, ended, now0) ==
  LET nows0 == now0 \div 1000
      t1 == CASE op = OpDiscover -> (IF acking THEN TComplete(TAdd(f.live, k, gen, nows0, TableCap), k, gen)
                                    ELSE TAdd(f.live, k, gen, nows0, TableCap))
              [] op = OpReset -> {}
              [] OTHER -> f.live
      t2 == IF ended THEN {} ELSE t1
      r1 == IF op = OpHello THEN RInc(f.r) ELSE f.r
      band == IF op = OpHello
              THEN [f EXCEPT !.r = r1, !.begun = IF (r1[1] > 0 \/ r1[2] >= GAMMA) THEN 1 ELSE @, !.es = EnumNext(f.es, EnumHello)]
              ELSE IF op = OpDiscover
              THEN (IF f.es = 0
                    THEN [f EXCEPT !.ni = << 0, ALPHA >>, !.r = << 0, 0 >>, !.begun = 0, !.bto = now0 + BlockMs,
                                   !.hto = now0 + LoadInterval(ALPHA), !.es = EnumNext(0, EnumNewSession)]
                    ELSE [f EXCEPT !.begun = 1, !.es = EnumNext(f.es, EnumNewSession)])
              ELSE f
  IN [band EXCEPT !.live = t2, !.inact = nows0 + 30,
                  !.ctc = IF op = OpCharge THEN (f.ctc + 1) % 256 ELSE f.ctc,
                  !.cdl = IF op = OpCharge THEN nows0 + 1 ELSE f.cdl]

=============================================================================
