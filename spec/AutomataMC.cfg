SPECIFICATION Spec
CONSTANTS Keys = {1, 2, 3}
          Cap = 2
INVARIANT CountOK UniqueOK AllCompleteOK ActiveImpliesFrame
PROPERTY NoStale InactiveEnds
CHECK_DEADLOCK FALSE
