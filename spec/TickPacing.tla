----------------------------- MODULE TickPacing -----------------------------
(***************************************************************************)
(* Abstract timed model of the periodic tick (automata_tick) for C12.      *)
(* The state holds only RELATIVE clock classes, so the model is finite     *)
(* without a time horizon and TLC decides the pacing properties for all    *)
(* schedules of tick / time advance / session events / frames.             *)
(*                                                                         *)
(*   es   enumeration state: 0 Quiescent, 1 Pausing, 2 Wait                *)
(*   tbl  session table: "empty", "allc" (non-empty, all complete),        *)
(*        "inc" (some session not yet complete)                            *)
(*   hto  Hello deadline: "unset", "due" (<= now), "soon" (< 1000 ms       *)
(*        away), "late" (>= 1000 ms away)                                  *)
(*   bto  block deadline: "unset", "due", "pending"                        *)
(*   tx   time since the last periodic Hello: "never", "lt" (< 1000 ms),   *)
(*        "ge" (>= 1000 ms)                                                *)
(*                                                                         *)
(* TickStep(s) is the set of [post, sent] the tick may produce from s.     *)
(* It is also the step function against which recorded ticks of the real   *)
(* automata_tick are checked (refinement under the relative-clock mapping, *)
(* AutomataTrace!TickRefines).  The faithful absolute-time model is        *)
(* intractable (27 M states in 15 min unfinished, DESIGN.md 2.1).          *)
(***************************************************************************)
EXTENDS Naturals, FiniteSets, TLC

Tbls == {"empty", "allc", "inc"}
Htos == {"unset", "due", "soon", "late"}
Btos == {"unset", "due", "pending"}
Txs  == {"never", "lt", "ge"}

State == [es : {0, 1, 2}, tbl : Tbls, hto : Htos, bto : Btos, tx : Txs]

(* enumeration state after the table-status update at the head of the tick *)
EsAfter(s) ==
  IF s.es = 0 THEN 0
  ELSE IF s.tbl = "empty" THEN 0
  ELSE IF s.tbl = "allc" THEN (IF s.es = 1 THEN 2 ELSE 0)
  ELSE 1

TickStep(s) ==
  LET es1 == EsAfter(s)
      cleared == s.es # 0 /\ s.tbl = "empty"
      h0 == IF cleared THEN "unset" ELSE s.hto
      b0 == IF cleared THEN "unset" ELSE s.bto
  IN IF es1 # 1 THEN {[post |-> [s EXCEPT !.es = es1, !.hto = h0, !.bto = b0], sent |-> FALSE]}
     ELSE
       LET due == h0 = "due"
           send == due /\ s.tx \in {"never", "ge"}
           \* suppressed: pushed to last transmit + 1000 ms; sent: at least 1000 ms away
           h1s == IF ~due THEN {h0} ELSE IF send THEN {"late"} ELSE {"soon", "late"}
           tx1 == IF send THEN "lt" ELSE s.tx
           \* end of block: the Hello deadline is re-chosen from the load formula (>= 120 ms away)
           blk == b0 = "due"
       IN {[post |-> [es |-> 1, tbl |-> s.tbl, hto |-> h2, bto |-> (IF blk THEN "pending" ELSE b0), tx |-> tx1], sent |-> send] :
             h2 \in (IF blk THEN {"soon", "late"} ELSE h1s)}

(* ------------------------------------------------------------ the model *)
VARIABLES s, lastSent     \* lastSent: ghost, the pre-state of the most recent Hello (for the properties)
vars == << s, lastSent >>

Init == s = [es |-> 0, tbl |-> "empty", hto |-> "unset", bto |-> "unset", tx |-> "never"] /\ lastSent = << >>

Tick == \E r \in TickStep(s) : s' = r.post /\ lastSent' = (IF r.sent THEN << s >> ELSE lastSent)

Advance ==   \* time passes: deadlines come closer, the last transmit moves away
  /\ \E h \in (CASE s.hto = "late" -> {"late", "soon", "due"} [] s.hto = "soon" -> {"soon", "due"} [] OTHER -> {s.hto}) :
     \E b \in (IF s.bto = "pending" THEN {"pending", "due"} ELSE {s.bto}) :
     \E t \in (IF s.tx = "lt" THEN {"lt", "ge"} ELSE {s.tx}) :
        s' = [s EXCEPT !.hto = h, !.bto = b, !.tx = t]
  /\ UNCHANGED lastSent

TableEvent ==   \* sessions appear, complete, expire, are removed or cleared
  /\ \E t \in Tbls : s' = [s EXCEPT !.tbl = t]
  /\ UNCHANGED lastSent

Discover ==     \* a Discover through the frame path: the table gains/refreshes a session, RepeatBand starts
  /\ \E t \in {"allc", "inc"} :
       s' = IF s.es = 0 THEN [s EXCEPT !.tbl = t, !.es = 1, !.hto = "soon", !.bto = "pending"]
            ELSE [s EXCEPT !.tbl = t, !.es = 1]
  /\ UNCHANGED lastSent

Next == Tick \/ Advance \/ TableEvent \/ Discover
Spec == Init /\ [][Next]_vars

TypeOK == s \in State

(* C12 *)
HelloGap == [][ \A r \in TickStep(s) : (r.sent /\ s' = r.post) => s.tx # "lt" ]_vars                     \* >= 1 s apart
HelloOnlyWhileIncomplete == [][ \A r \in TickStep(s) : (r.sent /\ s' = r.post) => s.tbl = "inc" ]_vars   \* purposeful
SilentWhenEmpty == [][ \A r \in TickStep(s) : (s.tbl = "empty" /\ s' = r.post) => ~r.sent ]_vars
StopsWithSession == (s.tbl = "empty" /\ s.es # 0) => \A r \in TickStep(s) : r.post.es = 0 /\ r.post.hto = "unset"
(* a sent Hello always leaves the next deadline at least a second away unless a block ended in the same tick *)
NoBackToBack == [][ \A r \in TickStep(s) : (r.sent /\ s' = r.post) => (s'.tx = "lt") ]_vars

(* reachability (vacuity guard, must be violated): a Hello is actually sent in some behaviour *)
NeverSends == lastSent = << >>
=============================================================================
