SPECIFICATION Spec
CONSTANTS Threads = {1, 2}
          Calls = 2
          Locked = FALSE
INVARIANT NoSharedRecord NoLostState
CHECK_DEADLOCK FALSE
