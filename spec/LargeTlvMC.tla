----------------------------- MODULE LargeTlvMC -----------------------------
(***************************************************************************)
(* C08 reassembly theorem: a mapper that starts at offset 0 and advances   *)
(* by the returned length until the 'more' flag clears reassembles exactly *)
(* the platform's bytes - for EVERY responder whose responses satisfy the  *)
(* per-call relation Responder!ChunkOK (any allowed chunk size, not only   *)
(* maximal chunks).  Model: the responder picks any allowed chunk.         *)
(* Comparisons only depend on the order of off, off+cap and size, so the   *)
(* small domain covers every case split; the arithmetic of the C code on   *)
(* the large domain is covered by trace validation.                        *)
(***************************************************************************)
EXTENDS Naturals, Sequences, TLC

CONSTANT Check
CONSTANTS MaxSize, MaxCap
INSTANCE Responder

VARIABLES size, cap, off, acc, done, steps
vars == << size, cap, off, acc, done, steps >>

DataByte(i) == (7 + 37 * i) % 256        \* platform data: byte i (0-based)

Init == /\ size \in 0..MaxSize /\ cap \in 1..MaxCap
        /\ off = 0 /\ acc = << >> /\ done = FALSE /\ steps = 0

(* one QueryLargeTlv at the current offset, answered with any chunk ChunkOK allows *)
Request ==
  /\ ~done
  /\ \E len \in 0..MaxCap : \E more \in BOOLEAN :
       /\ ChunkOK(size, off, cap, len, more)
       /\ acc' = acc \o [k \in 1..len |-> DataByte(off + k - 1)]
       /\ off' = off + len
       /\ done' = ~more
       /\ steps' = steps + 1
  /\ UNCHANGED << size, cap >>

Next == Request
Spec == Init /\ [][Next]_vars /\ WF_vars(Request)

Reassembled == done => acc = [k \in 1..size |-> DataByte(k - 1)]
Progresses == steps <= size + 1                      \* every response with 'more' set carries at least one byte
Terminates == <>done
(* a request at or past the end is answered empty with the flag clear *)
PastEnd == \A o \in 0..(MaxSize + 2) : \A len \in 0..MaxCap : \A more \in BOOLEAN :
             (o >= size /\ ChunkOK(size, o, cap, len, more)) => (len = 0 /\ ~more)
=============================================================================
