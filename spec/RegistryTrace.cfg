SPECIFICATION Spec
CONSTANTS Threads = {1, 2}
          Calls = 2
          Locked = FALSE
CONSTRAINT AlongRecorded
INVARIANT Conformance
POSTCONDITION AllMatched
CHECK_DEADLOCK FALSE
