---------------------------- MODULE ResponderMC ----------------------------
(***************************************************************************)
(* Model checking of the general specification Responder in small scope.   *)
(*                                                                         *)
(* The environment sends any request of a small universe; the responder    *)
(* answers with ANY reaction of a small universe of candidate reactions    *)
(* (correct and incorrect ones) that Responder!NextStates allows.  TLC     *)
(* then checks the properties in their HISTORY phrasing (ghost variables   *)
(* updated by history rules only) against the mechanism-phrased state of   *)
(* Responder for every behaviour of every allowed implementation:          *)
(*   C05H  reply-or-silence of a Discover is a function of                 *)
(*         (last Reset, first accepted opener since)                       *)
(*   C07H  conservation: what was observed since the last Reset is exactly *)
(*         what was reported plus what is still pending; nothing twice     *)
(*   C09H  a topology Reset leads to the initial state                     *)
(*   C02H  nothing is sent for requests of foreign services                *)
(***************************************************************************)
EXTENDS MCUniverse

VARIABLES st, req, out,      \* abstract state; the last request and reaction
          opener, taint,     \* ghost: first accepted opener since the last Reset; a command made the role ambiguous
          pend, collided     \* ghost: observed for this station and not yet reported; a key collision / cap freedom was used

vars == << st, req, out, opener, taint, pend, collided >>

(* ------------------------------------------------------------ reaction universe *)
Hello(r, g) == [Fr(OpHello, r.tos, Own, BCAST, Own, BCAST, 0, 60) EXCEPT !.gen = g, !.cur = r.rs, !.app = r.es]

UDiscover(r) == { << >>, << T(Hello(r, r.gen)) >>, << S(10), T(Hello(r, r.gen)) >>, << T(Hello(r, 77)) >>,
                  << T(Hello(r, r.gen)), T(Hello(r, r.gen)) >>,
                  << T([Hello(r, r.gen) EXCEPT !.cur = r.es, !.app = r.rs]) >> }

PT(d) == Fr(IF d.kind = 1 THEN OpProbe ELSE OpTrain, 0, d.src, d.dst, Own, d.dst, 0, 32)
Ack(r, ed) == Fr(OpAck, 0, Own, ed, Own, r.rs, r.seq, 32)
UEmit(r) ==
  LET d == r.descs
      full(ed) == IF Len(d) = 0 THEN << >>
                  ELSE IF Len(d) = 1 THEN << S(d[1].pause), T(PT(d[1])), T(Ack(r, ed)) >>
                  ELSE << S(d[1].pause), T(PT(d[1])), S(d[2].pause), T(PT(d[2])), T(Ack(r, ed)) >>
  IN { << >>, full(r.rs), full(r.es) }
     \cup (IF Len(d) >= 1 THEN { << T(PT(d[1])), T(Ack(r, r.rs)) >>,                               \* pause ignored / too few
                                 << S(d[1].pause), T(PT(d[1])) >>,                                   \* no ACK
                                 << S(d[1].pause), T(PT(d[1])), T(PT(d[1])), T(PT(d[1])), T(Ack(r, r.rs)) >>,
                                 << S(d[1].pause), T(PT(d[1])), T([Ack(r, r.rs) EXCEPT !.seq = 99]) >> }
           ELSE {})
     \cup (IF Len(d) = 2 THEN { << S(d[2].pause), T(PT(d[2])), S(d[1].pause), T(PT(d[1])), T(Ack(r, r.rs)) >>,   \* reversed
                                << T(Ack(r, r.rs)), S(d[1].pause), T(PT(d[1])), S(d[2].pause), T(PT(d[2])) >>,   \* ACK first
                                << S(d[2].pause), T(PT(d[2])), T(Ack(r, r.rs)) >> }                               \* kind-skipping code path
           ELSE {})

Bogus == [rs |-> X, es |-> X, ed |-> X]
ObsSeqs(Q) == { << >> } \cup { << a >> : a \in Q } \cup { << a, b >> : a \in Q, b \in Q } \cup
              { << a, b, c >> : a \in Q, b \in Q, c \in Q }
QResp(r, ed, ds, more) ==
  [Fr(OpQueryResp, 0, Own, ed, Own, ed, r.seq, 34 + 20 * Len(ds)) EXCEPT
     !.more = more, !.descs = [i \in 1..Len(ds) |-> [ty |-> 0, rs |-> ds[i].rs, es |-> ds[i].es, ed |-> ds[i].ed]],
     !.wf = 34 + 20 * Len(ds) <= Mtu]
UQuery(r, s) == { << >> } \cup
                { << T(QResp(r, ed, ds, more)) >> : ed \in {r.rs, BCAST}, ds \in ObsSeqs(s.obs \cup {Bogus}), more \in BOOLEAN }

LResp(r, pay, more) == [Fr(OpQueryLargeResp, 0, Own, r.rs, Own, r.rs, r.seq, 34 + Len(pay)) EXCEPT !.pay = pay, !.more = more]
ULarge(r) == { << >> } \cup { << T(LResp(r, pay, more)) >> :
                               pay \in { << >>, << 7 >>, << 7, 8 >>, << 7, 8, 9 >>, << 9 >>, << 8, 9 >>, << 8 >> }, more \in BOOLEAN }

Universe(r, s) ==
  CASE r.op = OpDiscover -> UDiscover(r)
    [] r.op = OpEmit -> UEmit(r)
    [] r.op = OpQuery -> UQuery(r, s)
    [] r.op = OpQueryLarge -> ULarge(r)
    [] OTHER -> { << >>, << T(Hello(r, 0)) >> }

(* ------------------------------------------------------------ ghost (history) rules *)
IsCmd(r) == r.tos \in {0, 1} /\ ((r.op \in {OpEmit, OpQuery} /\ r.tos = 0) \/ r.op = OpQueryLarge)
Replied(o) == Frames(o) # << >>
ForUs(r) == r.op \in {OpProbe, OpTrain} /\ r.tos = 0 /\ r.rd = Own
ObsOf(r) == [rs |-> r.rs, es |-> r.es, ed |-> r.ed]
Delivered(r, o) == IF r.op = OpQuery /\ r.tos = 0 /\ Len(Frames(o)) = 1 /\ Frames(o)[1].op = OpQueryResp
                   THEN DescSet(Frames(o)[1]) ELSE {}

Init ==
  /\ st = InitState /\ req = Rq(OpAck, 2, X, Own, X, Own, 0) /\ out = << >>
  /\ opener = << >> /\ taint = FALSE /\ pend = {} /\ collided = FALSE

Step(r, o, nx) ==
    /\ st' = nx /\ req' = r /\ out' = o
    /\ opener' = IF r.op = OpReset /\ r.tos \in {0, 1} THEN << >>
                 ELSE IF r.op = OpDiscover /\ r.tos \in {0, 1} /\ Replied(o) /\ opener = << >> THEN r.rs
                 ELSE opener
    /\ taint' = IF r.op = OpReset /\ r.tos \in {0, 1} THEN FALSE
                ELSE IF IsCmd(r) /\ r.rs # opener THEN TRUE ELSE taint
    /\ pend' = IF r.op = OpReset /\ r.tos = 0 THEN {}
               ELSE IF ForUs(r) THEN pend \cup {ObsOf(r)}
               ELSE pend \ Delivered(r, o)
    /\ collided' = IF r.op = OpReset /\ r.tos = 0 THEN FALSE
                   ELSE collided \/ (ForUs(r) /\ \E p \in pend : p.rs = r.rs /\ p.es = r.es /\ p # ObsOf(r))
                                 \/ (r.op = OpReset /\ r.tos = 1)
                                 \/ (r.op \in {OpProbe, OpTrain} /\ r.tos = 1)

Next ==
  \E r \in Reqs : \E o \in Universe(r, st) : \E nx \in NextStates(Cfg, st, r, o, 0, 0) : Step(r, o, nx)

Spec == Init /\ [][Next]_vars

(* the last request / reaction are observation variables: kept out of the fingerprint *)
View == << st, opener, taint, pend, collided >>

(* ------------------------------------------------------------ properties *)
(* C05, history phrasing *)
C05H == [][ (req'.op = OpDiscover /\ req'.tos \in {0, 1} /\ ~taint)
              => (Replied(out') <=> (opener = << >> \/ opener = req'.rs)) ]_vars

(* foreign services never establish, change or release the mapper, and get no reply *)
C05F == [][ (req'.tos \notin {0, 1}) => (st'.mapper = st.mapper /\ ~Replied(out')) ]_vars

(* C07 conservation: the mechanism state equals the history ghost (unless a collision freedom was used) *)
C07H == ~collided => st.obs = pend
C07NoTwice == [][ (CmdInDomain(st, req') /\ ~collided) => \A d \in Delivered(req', out') : d \in pend ]_vars
C07Complete == [][ (req'.op = OpQuery /\ req'.tos = 0 /\ CmdInDomain(st, req') /\ ~collided /\ Replied(out') /\ ~Frames(out')[1].more)
                     => pend' = {} ]_vars

(* C09 *)
C09H == [][ (req'.op = OpReset /\ req'.tos = 0) => st' = InitState ]_vars

(* C02: only the four request kinds of the discovery services are ever answered *)
C02H == [][ Replied(out') => (req'.tos \in {0, 1} /\ req'.op \in {OpDiscover, OpEmit, OpQuery, OpQueryLarge}) ]_vars

(* C06: an in-domain Emit is answered by exactly its descriptors, in order, then one ACK *)
C06H == [][ (req'.op = OpEmit /\ req'.tos = 0 /\ EmitInDomain(st, req'))
              => /\ CountOps(Frames(out'), {OpProbe, OpTrain}) = req'.declared
                 /\ CountOps(Frames(out'), {OpAck}) = 1
                 /\ Frames(out')[Len(Frames(out'))].op = OpAck ]_vars

(* vacuity guards: these must be VIOLATED (reachability), checked by a separate config *)
ReachAccept == ~(st.mapper.known /\ Cardinality(st.obs) = 2)
=============================================================================
