SPECIFICATION PathSpec
CONSTANT Mtu = 576
CONSTANT Scope = 1
CONSTANT Check = {}
INVARIANT DumpPath
VIEW PathView
CHECK_DEADLOCK FALSE
