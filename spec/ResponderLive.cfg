SPECIFICATION LSpec
CONSTANT Mtu = 74
CONSTANT Scope = 1
CONSTANT Check = {"C02","C05","C06","C07","C08","C09"}
PROPERTY DrainCompletes
VIEW LView
CHECK_DEADLOCK FALSE
