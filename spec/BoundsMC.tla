------------------------------ MODULE BoundsMC ------------------------------
(***************************************************************************)
(* C01, the bounds LOGIC: for every wire counter class and every MTU class *)
(* the highest buffer offset the handlers' rules touch stays inside the    *)
(* MTU-sized receive buffer / inside what they allocated.  (That the C     *)
(* code follows these rules and is free of undefined behaviour is observed *)
(* by ASan/UBSan on replayed behaviours, not proved.)                      *)
(*   Emit         reads 34 + 14 * min(declared, EmitCap(mtu)) bytes        *)
(*   classifier   reads 36 + 6 * min(count, (len - 36) div 6) <= len bytes *)
(*   QueryResp    writes 34 + 20 * min(k, QueryCap(mtu)) into mtu bytes    *)
(*   LargeTlvResp writes 34 + min(LargeCap(mtu), size - off) into          *)
(*                34 + LargeCap(mtu) bytes, reads data[off .. off+len)     *)
(***************************************************************************)
EXTENDS Wire, TLC

Mtus == {576, 577, 578, 589, 590, 1280, 1492, 1500, 9000, 9215, 9216}
Counts(mtu) == {0, 1, EmitCap(mtu), EmitCap(mtu) + 1, QueryCap(mtu), QueryCap(mtu) + 1, (mtu - 36) \div 6, (mtu - 36) \div 6 + 1, 240, 32767, 32768, 65535}

EmitRead(mtu, declared) == 34 + 14 * Min(declared, EmitCap(mtu))
ClassifierRead(len, count) == IF len < 36 THEN 32 ELSE 36 + 6 * Min(count, (len - 36) \div 6)
QueryWrite(mtu, k) == 34 + 20 * Min(k, QueryCap(mtu))
LargeLen(mtu, size, off) == IF off >= size THEN 0 ELSE Min(LargeCap(mtu), size - off)

ASSUME \A mtu \in Mtus : \A c \in Counts(mtu) : EmitRead(mtu, c) <= mtu
ASSUME \A mtu \in Mtus : \A len \in {32, 35, 36, 41, 42, 47, 48, mtu - 1, mtu} : \A c \in Counts(mtu) :
          len <= mtu => ClassifierRead(len, c) <= Max(len, 32)
ASSUME \A mtu \in Mtus : \A k \in Counts(mtu) \cup {1024} : QueryWrite(mtu, k) <= mtu
ASSUME \A mtu \in Mtus : \A size \in {0, 1, 64, mtu - 35, mtu - 34, mtu - 33, 16384, 32768} : \A off \in {0, 1, 64, mtu - 34, 16383, 32767, 32768, 65535} :
          /\ 34 + LargeLen(mtu, size, off) <= mtu
          /\ off + LargeLen(mtu, size, off) <= Max(size, off)         \* never reads past the data
          /\ (off < size => LargeLen(mtu, size, off) >= 1)

VARIABLE x
Spec == x = 0 /\ [][x' = x]_x
=============================================================================
