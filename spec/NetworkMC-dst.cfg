SPECIFICATION Spec
CONSTANT Mtu = 74
CONSTANT Scope = 1
CONSTANT Check = {"C02","C05","C06","C07"}
CONSTANT RdChoice = "dst"
INVARIANT PeerObserves
CHECK_DEADLOCK FALSE
