----------------------------- MODULE ImplPaths -----------------------------
EXTENDS ResponderImpl

(* ------------------------------------------------------------ state cover for replay (G1) *)
(* A ghost `path' (request indices from the initial state) is carried along and kept out of   *)
(* the fingerprint: breadth-first search then visits every mechanism state once, by a         *)
(* shortest path, and the invariant below prints it.  bin/check turns every (path, request)   *)
(* pair - i.e. every transition of the mechanism - into a script for the real code.           *)
ReqSeq == SetToSeq(Reqs)
VARIABLE path
PathInit == ImplInit /\ path = << >>
PathNext == \E i \in 1..Len(ReqSeq) :
              LET r == ReqSeq[i] res == IStep(ist, r) IN
              /\ ist' = res.st /\ req' = r /\ out' = res.out /\ ast' = ast /\ path' = Append(path, i)
PathSpec == PathInit /\ [][PathNext]_<< ist, ast, req, out, path >>
PathView == ist
DumpPath == PrintT(<< "PATH", path >>)
ASSUME PrintT(<< "REQS", ToJson(ReqSeq) >>)
=============================================================================
