SPECIFICATION Spec
INVARIANT NeverSends
CHECK_DEADLOCK FALSE
