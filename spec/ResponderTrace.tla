-------------------------- MODULE ResponderTrace --------------------------
(***************************************************************************)
(* Trace validation: events recorded by the verification port while the    *)
(* real parseFrame (and friends) ran are replayed against Responder.  One  *)
(* step consumes one event; the recorded request bytes are decoded by      *)
(* Wire!RxDecode, every transmitted frame by Wire!TxDecode, and the step   *)
(* is allowed iff st' \in Responder!NextStates(...).                       *)
(*                                                                         *)
(* Check (a CONSTANT) selects which properties' predicates are enforced.   *)
(* Besides the ids of Responder it understands                             *)
(*   "EQ"   an event flagged eq=1 must transmit exactly the bytes of the   *)
(*          event before it (twin runs: C02 determinism, C09, C17, C18)    *)
(*   "C19"  ledger monitors on the live-allocation counts                  *)
(***************************************************************************)
EXTENDS Mechanism, Json, IOUtils, TLC, TLCExt

CONSTANT Primary    \* the property whose antecedent is counted for the evidence

Log == ndJsonDeserialize(IOEnv.TRACE)

VARIABLES l,        \* next event to consume
          sts,      \* interface id -> abstract responder state
          cfgs,     \* interface id -> configuration (from the boot event)
          aux       \* monitors that need memory: reset ledger constant, fixed TLV values

vars == << l, sts, cfgs, aux >>

Ifcs == 1..8

NoCfg == [own |-> << >>, mtu |-> 0, attrs |-> [wifi |-> 0], data |-> << >>]
NoAux == [resetLive |-> 0 - 1, resetBytes |-> 0 - 1, fixed |-> << >>, expect |-> {}, mech |-> MInit, mok |-> TRUE, floodMax |-> 0 - 1]

TraceInit ==
  /\ l = 1
  /\ sts = [i \in Ifcs |-> InitState]
  /\ cfgs = [i \in Ifcs |-> NoCfg]
  /\ aux = [i \in Ifcs |-> NoAux]

LargeDesc(triple) == [present |-> triple[1] = 1, kind |-> "gen", size |-> triple[2], salt |-> triple[3], bytes |-> << >>]

(* the hardware id is a UCS-2LE string: what the platform provides ends at the first   *)
(* aligned 00 00 pair                                                                  *)
HwIdLen(b) == LET Z == {i \in 0..(Len(b) \div 2 - 1) : b[2 * i + 1] = 0 /\ b[2 * i + 2] = 0}
              IN IF Z = {} THEN 2 * (Len(b) \div 2) ELSE 2 * (CHOOSE i \in Z : \A j \in Z : i <= j)

CfgOf(ev) ==
  [ own  |-> ev.mac,
    mtu  |-> ev.mtu,
    attrs |-> [ mac |-> ev.mac, flags |-> ev.flags, iftype |-> ev.iftype, ipv4 |-> ev.ipv4,
                ipv6 |-> ev.ipv6, speed |-> ev.speed, host |-> ev.host, wifi |-> ev.wifi,
                wmode |-> ev.wmode, bssid |-> ev.bssid, ssid |-> ev.ssid, rate |-> ev.rate,
                rssi |-> ev.rssi ],
    data |-> (14 :> LargeDesc(ev.icon)) @@ (17 :> LargeDesc(ev.name)) @@
             (19 :> [present |-> TRUE, kind |-> "lit", size |-> HwIdLen(ev.hwid), salt |-> 0, bytes |-> ev.hwid]) ]

TBoot ==
  LET ev == Log[l] IN
  /\ ev.e = "boot"
  \* keep = 1: only the platform's view of the interface changed (addresses, MTU, names): nothing the responder
  \* remembers is touched, every later reply is judged against the new attributes
  /\ sts' = (IF ev.keep = 1 THEN sts ELSE [sts EXCEPT ![ev.ifc] = InitState])
  /\ cfgs' = [cfgs EXCEPT ![ev.ifc] = CfgOf(ev)]
  /\ aux' = (IF ev.keep = 1 THEN aux ELSE [aux EXCEPT ![ev.ifc] = NoAux])
  /\ l' = l + 1

TSkip ==
  /\ Log[l].e \in {"mark", "end"}
  /\ l' = l + 1
  /\ UNCHANGED << sts, cfgs, aux >>

(* reaction items -> abstract items; a frame whose own-address or MTU getter was made to fail *)
(* is decoded against what it carries / the documented fallback                                *)
OutOf(ev, cfg) ==
  [i \in 1..Len(ev.out) |->
     IF ev.out[i].k = "s" THEN [k |-> "s", ms |-> ev.out[i].ms]
     ELSE LET b == ev.out[i].b
              own == IF Bit(ev.gf, GMac) /\ Len(b) >= 30 THEN Addr(b, 25) ELSE cfg.own
              mtu == IF Bit(ev.gf, 0) THEN Max(cfg.mtu, 1500) ELSE cfg.mtu
          IN [k |-> "t", rc |-> ev.out[i].rc, f |-> TxDecode(b, own, mtu)]]

TxBytes(o) == LET s == SelectSeq(o, LAMBDA x : x.k = "t") IN [i \in 1..Len(s) |-> s[i].b]

IsTopoReset(req) == req.op = OpReset /\ req.tos = 0

(* a fault that leaves the effect of the request unspecified (C18): a refused allocation or   *)
(* transmit, or a failed getter other than a plain attribute getter (MTU 0, own address 1,    *)
(* icon 2, friendly name 3, hardware id 5).  A failed attribute getter only frees its own     *)
(* TLV (C04).                                                                                *)
FaultOf(ev) == (ev.flt % 4) + (IF \E g \in {0, 1, 2, 3, 5} : Bit(ev.gf, g) THEN 4 ELSE 0)

(* C19: ledger monitors.  live = allocations of this interface still held when the handler   *)
(* returned; live0 = the same before the request.                                            *)
RetainPerRequest == 8
LedgerOK(ev, req, a) ==
  /\ ev.live - ev.live0 <= RetainPerRequest      \* one request adds a bounded handful of retained buffers (record, node, cache,
                                                 \* transmit buffer ...), never something per descriptor or per byte
  /\ ev.live >= 0
  /\ (Chk("EQ") /\ ev.eq = 1) => ev.live = Log[l - 1].live /\ ev.bytes = Log[l - 1].bytes   \* twins hold the same
  /\ (l > 1 /\ Log[l - 1].e = "req" /\ Log[l - 1].ifc = ev.ifc /\ Log[l - 1].b = ev.b
        /\ Log[l - 1].fill = ev.fill /\ FaultOf(Log[l - 1]) = 0 /\ FaultOf(ev) = 0)
       => ev.live <= Log[l - 1].live             \* idempotence: the same frame again retains nothing more
  /\ (IsTopoReset(req) /\ FaultOf(ev) = 0 /\ a.resetLive >= 0)
       => ev.live = a.resetLive /\ ev.bytes = a.resetBytes   \* after a Reset: the constant record only

(* C10: a frame transmitted by interface A and delivered unmodified to interface B (the event *)
(* says which transmit item of which earlier event it is; the monitor verifies that claim).   *)
PipeOK(ev) ==
  IF ev.pipe[1] = 0 THEN TRUE
  ELSE LET src == Log[ev.pipe[1]].out[ev.pipe[2]].b
       IN ev.len = Len(src) /\ \A i \in 1..Len(src) : At(ev.b, ev.fill, i) = src[i]

(* a Probe/Train A emitted towards B must be reported by B with A as its source *)
ExpectAfterRx(ev, a) ==
  IF ev.pipe[1] = 0 THEN a.expect
  ELSE LET sev == Log[ev.pipe[1]]
           f == TxDecode(sev.out[ev.pipe[2]].b, cfgs[sev.ifc].own, cfgs[sev.ifc].mtu)
       IN IF f.op \in {OpProbe, OpTrain} /\ f.ed = cfgs[ev.ifc].own
          THEN a.expect \cup {[rs |-> cfgs[sev.ifc].own, es |-> f.es, ed |-> f.ed]}
          ELSE a.expect

IsQueryResp(req, out) ==
  LET fr == Frames(out) IN req.op = OpQuery /\ req.tos = 0 /\ Len(fr) = 1 /\ fr[1].op = OpQueryResp

PeerReportOK(req, a, out) ==
  IsQueryResp(req, out) => (~Frames(out)[1].more => a.expect \subseteq DescSet(Frames(out)[1]))

(* ---------------------------------------------------------------- XIMPL: the mechanism, state for state    *)
(* Beyond the listed properties: the recorded execution is compared with Mechanism!MStep - the state the     *)
(* record holds after every request (mapper binding, apparent address, sequence number, both generations,    *)
(* icon cache flag, the observation list IN ORDER) and every item of the reaction (pauses, frames with all    *)
(* their abstract fields; a Hello's property list is C04's business).  A fault, or a flood the monitor does   *)
(* not follow, suspends the comparison until the next fault-free topology Reset.                              *)
MechClean(ev) == FaultOf(ev) = 0 /\ ev.gf = 0 /\ ev.flt = 0
SeeTriples(see) == [i \in 1..Len(see) |-> see[i].rs \o see[i].es \o see[i].ed]
MechAgree(m, s) ==
  IF s.has = 0 THEN m = MInit
  ELSE /\ m.known = (s.known # 0)
       /\ m.known => (m.real = s.real /\ m.app = s.app)
       /\ m.seq = s.seq /\ m.genT = s.gt /\ m.genQ = s.gq
       /\ m.icon = (s.icon # 0)
       /\ Len(m.see) = s.nlist /\ s.nsee = s.nlist
       /\ s.nlist = Len(s.see) => SeeTriples(m.see) = s.see
ProjItem(x) == IF x.k = "s" THEN [k |-> "s", ms |-> x.ms]
               ELSE [k |-> "t", rc |-> x.rc,
                     f |-> [x.f EXCEPT !.n = IF x.f.op = OpHello THEN 0 ELSE @, !.tlvs = << >>, !.why = "", !.wf = TRUE,
                                   !.more = IF x.f.op \in {OpQueryResp, OpQueryLargeResp} THEN @ ELSE FALSE]]
ProjOut(o) == [i \in 1..Len(o) |-> ProjItem(o[i])]
MechOK(cfg, ev, req, out, a) ==
  (a.mok /\ MechClean(ev)) =>
     LET res == MStep(cfg, a.mech, req)
         ok1 == MechAgree(res.st, ev.st)
         ok2 == ProjOut(out) = ProjOut(res.out)
     IN IF ok1 /\ ok2 THEN TRUE
        ELSE /\ PrintT(<< "XIMPL-DIFF", "state", ok1, "out", ok2, "model", [res.st EXCEPT !.see = Len(@)], "real", [ev.st EXCEPT !.see = Len(@)],
                         "modelout", ProjOut(res.out), "realout", ProjOut(out) >>)
             /\ FALSE
MechNext(cfg, ev, req, a) ==
  IF ~Chk("XIMPL") THEN a
  ELSE IF ~MechClean(ev) THEN [a EXCEPT !.mok = FALSE]
  ELSE IF a.mok THEN [a EXCEPT !.mech = MStep(cfg, a.mech, req).st]
  ELSE IF IsTopoReset(req) THEN [a EXCEPT !.mech = MInit, !.mok = TRUE]
  ELSE a

AuxNext(ev, req, a0, out) ==
  \* C07 lets "a Reset" discard the record; for the quick-discovery Reset the general spec leaves both open
  \* (freedom), so an expectation does not survive a Reset of either service
  LET a == [a0 EXCEPT !.expect = IF req.op = OpReset /\ req.tos \in {0, 1} THEN {}
                                 ELSE IF IsQueryResp(req, out) THEN a0.expect \ DescSet(Frames(out)[1])
                                 ELSE ExpectAfterRx(ev, a0)]
      a1 == IF IsTopoReset(req) /\ FaultOf(ev) = 0 /\ a.resetLive < 0
            THEN [a EXCEPT !.resetLive = ev.live, !.resetBytes = ev.bytes] ELSE a
      fr == Frames(out)
      hello == Len(fr) >= 1 /\ fr[1].op = OpHello /\ fr[1].wf
  IN IF hello /\ a1.fixed = << >> THEN [a1 EXCEPT !.fixed = << TlvVal(fr[1].tlvs, 10), TlvVal(fr[1].tlvs, 20) >>]
     ELSE a1

FixedOK(a, out) ==
  LET fr == Frames(out) IN
  (Len(fr) >= 1 /\ fr[1].op = OpHello /\ fr[1].wf /\ a.fixed # << >>)
    => a.fixed = << TlvVal(fr[1].tlvs, 10), TlvVal(fr[1].tlvs, 20) >>

(* which events exercised the antecedent of the property being checked (for the evidence) *)
Exercised(cfg, st, req, out) ==
  CASE Primary = "C02" -> Frames(out) # << >>
    [] Primary \in {"C03", "C04"} -> req.op = OpDiscover /\ req.tos \in {0, 1} /\ Frames(out) # << >>
    [] Primary = "C05" -> req.op = OpDiscover /\ req.tos \in {0, 1}
    [] Primary = "C06" -> req.op = OpEmit /\ req.tos = 0 /\ (EmitInDomain(st, req) \/ 34 + 14 * req.declared > req.len)
    [] Primary = "C07" -> req.op = OpQuery /\ req.tos = 0 /\ CmdInDomain(st, req)
    [] Primary = "C08" -> req.op = OpQueryLarge /\ req.tos \in {0, 1}
    [] Primary = "C09" -> Log[l].eq = 1
    [] Primary = "C10" -> IsQueryResp(req, out) /\ aux[Log[l].ifc].expect # {}
    [] Primary = "C18" -> FaultOf(Log[l]) # 0
    [] Primary = "C17" -> Log[l].eq = 1
    [] OTHER -> TRUE

(* "SNAP": the projection of the real per-interface record (guarded hook lltd_verif_iface_view_get) after *)
(* the request must be one of the abstract states the properties allow - compared at once, not only when   *)
(* a later reaction reveals it.  Mapper identity and the observation set are compared; they are exactly    *)
(* the state every later reply-or-silence and QueryResp is a function of.                                 *)
SeeSet(s) == {[rs |-> SubSeq(s.see[i], 1, 6), es |-> SubSeq(s.see[i], 7, 12), ed |-> SubSeq(s.see[i], 13, 18)] : i \in 1..Len(s.see)}
AgreeSnap(nx, s) ==
  IF nx.havoc THEN TRUE
  ELSE IF s.has = 0 THEN ~nx.mapper.known /\ nx.obs = {}
  ELSE /\ nx.mapper.known = (s.known # 0)
       /\ nx.mapper.known => nx.mapper.real = s.real
       /\ s.nlist = Len(s.see) => nx.obs = SeeSet(s)
       /\ s.nsee = s.nlist                                  \* the record's own count is right
(* C09 at the level of the state: after a topology Reset the record is indistinguishable from a fresh one *)
FreshSnap(s) == s.has = 0 \/ (s.known = 0 /\ s.seq = 0 /\ s.gt = 0 /\ s.gq = 0 /\ s.icon = 0 /\ s.nsee = 0 /\ s.nlist = 0)

TReq ==
  LET ev  == Log[l]
      cfg == cfgs[ev.ifc]
      st  == sts[ev.ifc]
      \* above the capacity floor a probe may or may not be recorded (freedom CapAnyAtLeast300); which of the two
      \* happened is read off the record itself (observation-following: the monitor does not branch per frame).
      \* Only when the snapshot could not hold the whole record does the allocation ledger decide.
      rq0 == RxDecode(ev.b, ev.fill, ev.len, cfg.mtu)
      req == [rq0 EXCEPT !.grew =
                IF rq0.op \notin {OpProbe, OpTrain} \/ ev.st.has = 0 THEN "?"          \* only consulted for Probe / Train
                ELSE IF ev.st.nlist = Len(ev.st.see)
                THEN (IF \E i \in 1..Len(ev.st.see) : ev.st.see[i] = rq0.rs \o rq0.es \o rq0.ed THEN "yes" ELSE "no")
                ELSE IF ev.live > ev.live0 THEN "yes" ELSE "no"]
      out == OutOf(ev, cfg)
  IN /\ ev.e = "req"
     /\ (Chk("EQ") /\ ev.eq = 1) => TxBytes(ev.out) = TxBytes(Log[l - 1].out)
     /\ Chk("C19") => LedgerOK(ev, req, aux[ev.ifc])
     /\ Chk("C04") => FixedOK(aux[ev.ifc], out)
     /\ PipeOK(ev)
     /\ Chk("C10") => PeerReportOK(req, aux[ev.ifc], out)
     \* (C18: "after the fault clears and a Reset is received it behaves exactly like a freshly started responder")
     /\ ((Chk("C09") \/ Chk("C18")) /\ IsTopoReset(req) /\ FaultOf(ev) = 0) => FreshSnap(ev.st)
     /\ \E nx \in NextStates(cfg, st, req, out, FaultOf(ev), ev.gf) :
          /\ Chk("SNAP") => AgreeSnap(nx, ev.st)
          /\ sts' = [sts EXCEPT ![ev.ifc] = nx]
          /\ (Exercised(cfg, st, req, out) => TLCSet(2, TLCGet(2) \cup {l}))
     /\ Chk("XIMPL") => MechOK(cfg, ev, req, out, aux[ev.ifc])
     /\ (Primary = "XIMPL" /\ aux[ev.ifc].mok /\ MechClean(ev) => TLCSet(2, TLCGet(2) \cup {l}))
     /\ aux' = [aux EXCEPT ![ev.ifc] = MechNext(cfg, ev, req, AuxNext(ev, req, aux[ev.ifc], out))]
     /\ l' = l + 1
     /\ UNCHANGED cfgs

(* flood summary: n pairwise distinct Probes, no Query (C19 plateau: the second half of the *)
(* flood never holds more than the first half did)                                          *)
FloodSlack == 4     \* a handful of other bounded buffers (a cached property, a record) may have appeared in between
TFlood ==
  LET ev == Log[l] IN
  /\ ev.e = "flood"
  /\ Chk("C19") => ev.max2 <= ev.max1
  \* ... nor from one flood to the next, whatever happened in between (what a large flood retained is the bound)
  /\ Chk("C19") => ((aux[ev.ifc].floodMax >= 0 /\ ev.n >= 10000) => (ev.max1 <= aux[ev.ifc].floodMax + FloodSlack /\ ev.max2 <= aux[ev.ifc].floodMax + FloodSlack))
  /\ Chk("C02") => ev.txs = 0
  /\ (Chk("C19") => TLCSet(2, TLCGet(2) \cup {l}))
  \* the monitor does not follow the observation set through a flood; a Reset must follow
  /\ sts' = [sts EXCEPT ![ev.ifc] = [@ EXCEPT !.havoc = TRUE]]
  /\ aux' = [aux EXCEPT ![ev.ifc] = [@ EXCEPT !.mok = FALSE,
                                            !.floodMax = IF @ < 0 /\ ev.n >= 10000 THEN Max(ev.max1, ev.max2) ELSE @]]
  /\ l' = l + 1
  /\ UNCHANGED cfgs

(* ---------------------------------------------------------------- XTLV: property writers no Hello uses      *)
(* (lltdTlvOps.c; beyond the listed properties).  Support URL: type 0x10, at most 64 bytes of what the         *)
(* platform supplies.  UPnP UUID: type 0x12, the 16 bytes, or length 0 when the platform has none.  Hardware   *)
(* id: type 0x13, at most 64 bytes, nothing at all when there is none.  802.11 medium: as coded it is tagged   *)
(* 0x03 (the interface-type tag; MS-LLTD gives the 802.11 physical medium 0x15) with the big-endian value,     *)
(* 0 when the platform does not report one.  Nothing outside the returned extent is touched.                   *)
BE32(hl) == << hl[1] \div 256, hl[1] % 256, hl[2] \div 256, hl[2] % 256 >>
FirstN(b, n) == SubSeq(b, 1, Min(Len(b), n))
TlvWant(ev) ==
  CASE ev.w = "support" -> << 16, Min(Len(ev.url), 64) >> \o FirstN(ev.url, 64)
    [] ev.w = "uuid"    -> IF Len(ev.uuid) = 16 /\ ~Bit(ev.gf, 16) THEN << 18, 16 >> \o ev.uuid ELSE << 18, 0 >>
    [] ev.w = "hwid"    -> IF Len(ev.hwid) = 0 \/ Bit(ev.gf, 5) THEN << >> ELSE << 19, Min(Len(ev.hwid), 64) >> \o FirstN(ev.hwid, 64)
    [] ev.w = "medium"  -> << 3, 4 >> \o (IF ev.wifi = 1 /\ ~Bit(ev.gf, 15) THEN BE32(ev.phy) ELSE << 0, 0, 0, 0 >>)
TTlv ==
  LET ev == Log[l] IN
  /\ ev.e = "tlv"
  /\ Chk("XTLV") => (ev.b = TlvWant(ev) /\ ev.ret = Len(ev.b) /\ ev.clean = 1)
  /\ (Primary = "XTLV" => TLCSet(2, TLCGet(2) \cup {l}))
  /\ l' = l + 1
  /\ UNCHANGED << sts, cfgs, aux >>

TraceNext == l <= Len(Log) /\ (TBoot \/ TSkip \/ TReq \/ TFlood \/ TTlv)

TraceSpec == TraceInit /\ [][TraceNext]_vars

(* ---------------------------------------------------------------- acceptance *)
ASSUME TLCSet(1, 0) /\ TLCSet(2, {})

Progress == TLCSet(1, Max(TLCGet(1), l))

Accepted ==
  IF TLCGet(1) = Len(Log) + 1
  THEN PrintT(<< "ACCEPTED", Len(Log), "EXERCISED", Cardinality(TLCGet(2)) >>)
  ELSE /\ PrintT(<< "REJECTED_AT", TLCGet(1), "LN", Log[TLCGet(1)].ln, "EXERCISED", Cardinality(TLCGet(2)) >>)
       /\ FALSE

=============================================================================
