----------------------------- MODULE Responder -----------------------------
(***************************************************************************)
(* One interface's frame handler, written as the MOST GENERAL responder    *)
(* the properties C02..C09, C18 allow: deterministic where a property      *)
(* fixes the behaviour, an explicit named nondeterministic choice where    *)
(* the properties are silent.                                              *)
(*                                                                         *)
(* The module exports one set-valued step operator                         *)
(*     NextStates(cfg, st, req, out, flt, gf)                              *)
(* = the set of abstract states the properties allow after request `req'   *)
(* was answered by the reaction `out' (a sequence of sleep and transmit    *)
(* items) in state `st'; empty when the reaction is not allowed.           *)
(* It is used three ways: model checking of the general spec               *)
(* (ResponderMC), refinement of the mechanism (ResponderImpl), and trace   *)
(* validation of the real code (ResponderTrace).                           *)
(*                                                                         *)
(* Abstract state:                                                         *)
(*   mapper : [known, real, apps]  the active mapper, its real address and *)
(*            the Ethernet (apparent) addresses it has been seen behind    *)
(*   obs    : set of [rs, es, ed]  probes observed since the last drain    *)
(*   havoc  : a platform fault hit a request; only a topology Reset leads  *)
(*            back to specified behaviour (C18)                            *)
(* Sequence numbers and generations are deliberately NOT part of the       *)
(* state: every property that mentions them relates a reply to its own     *)
(* request; that nothing else carries over is what the twin runs check.    *)
(*                                                                         *)
(* Named freedoms (where the properties are silent the step is set-valued  *)
(* or the predicate is absent): StrangerCommandMayTakeOver,                *)
(* AckToRealOrApparent, ExtraSleep, KeyCollisionKeepsEither,               *)
(* CapAnyAtLeast300, MoreWhenExactlyFull, MalformedHeaderMayBeIgnored,     *)
(* quick-discovery Reset may or may not discard observations, quick-       *)
(* discovery Emit/Probe/Query ignored or served, destination of a          *)
(* QueryLargeTlvResp, Ethernet source of an ACK, real destination of an    *)
(* emitted Probe (fixed by C10 through NetworkMC), descriptor type field.  *)
(***************************************************************************)
EXTENDS Wire

CONSTANT Check      \* subset of {"C02","C03","C04","C05","C06","C07","C08","C09","C18"}

Chk(p) == p \in Check

NoMapper == [known |-> FALSE, real |-> << >>, apps |-> {}]
InitState == [mapper |-> NoMapper, obs |-> {}, havoc |-> FALSE]

ObsCapFloor == 300     \* freedom CapAnyAtLeast300: a cap on retained observations is allowed from here on

(* ------------------------------------------------------------------ reactions *)
TxItems(out) == SelectSeq(out, LAMBDA x : x.k = "t")
Frames(out)  == LET s == TxItems(out) IN [i \in 1..Len(s) |-> s[i].f]
TxIdx(out)   == SelectSeq([i \in 1..Len(out) |-> i], LAMBDA i : out[i].k = "t")

RECURSIVE SumMs(_, _, _)
SumMs(out, a, b) == IF a > b THEN 0 ELSE (IF out[a].k = "s" THEN out[a].ms ELSE 0) + SumMs(out, a + 1, b)

AllWF(out) == \A i \in 1..Len(out) : out[i].k = "t" => out[i].f.wf
OpsIn(fr, S) == \A i \in 1..Len(fr) : fr[i].op \in S
CountOps(fr, S) == Cardinality({i \in 1..Len(fr) : fr[i].op \in S})

(* ------------------------------------------------------------------ large data *)
(* a large property is [present, kind, size, salt, bytes]; kind "gen" computes byte i *)
(* (0-based) from a salt so that 32 KiB properties need not be logged                  *)
LData(d, i) == IF d.kind = "gen" THEN (d.salt + 37 * i + 11 * (i \div 256)) % 256 ELSE d.bytes[i + 1]
NoData == [present |-> FALSE, kind |-> "lit", size |-> 0, salt |-> 0, bytes |-> << >>]
DataFor(cfg, t) == IF t \in DOMAIN cfg.data /\ cfg.data[t].present THEN cfg.data[t] ELSE NoData

ChunkOK(size, off, cap, len, more) ==
  /\ IF off >= size THEN len = 0 ELSE len >= 1 /\ len <= Min(cap, size - off)
  /\ more <=> (off + len < size)

(* ------------------------------------------------------------------ mapper role *)
IsMapper(st, a) == st.mapper.known /\ st.mapper.real = a
MapperSet(st, real, app) ==
  [st EXCEPT !.mapper = [known |-> TRUE, real |-> real,
                         apps |-> (IF IsMapper(st, real) THEN st.mapper.apps ELSE {}) \cup {app}]]

(* A command (Emit / Query / QueryLargeTlv).  From the active mapper: no change.        *)
(* Freedom StrangerCommandMayTakeOver: while none is active, or from another station,   *)
(* it may or may not take the role.                                                     *)
AfterCommand(st, req) ==
  IF IsMapper(st, req.rs) THEN {MapperSet(st, req.rs, req.es)}
  ELSE {st, MapperSet(st, req.rs, req.es)}

CmdInDomain(st, req) == ~st.mapper.known \/ st.mapper.real = req.rs

(* ------------------------------------------------------------------ C04 *)
Bit(mask, g) == (mask \div (2 ^ g)) % 2 = 1
Prefix(s, n) == SubSeq(s, 1, Min(Len(s), n))
TlvVal(tl, t) == LET I == {i \in 1..Len(tl) : tl[i].t = t} IN
                 IF I = {} THEN << 0 - 1 >> ELSE tl[CHOOSE i \in I : TRUE].v
HasTlv(tl, t) == \E i \in 1..Len(tl) : tl[i].t = t
SignExt8(r) == IF r >= 0 THEN << 0, 0, 0, r >> ELSE << 255, 255, 255, 256 + r >>

(* getter ids as in the verification port *)
GMac == 1  GHost == 4  GIfType == 6  GIPv4 == 7  GIPv6 == 8  GSpeed == 9
GWMode == 10  GBssid == 11  GSsid == 12  GRate == 13  GRssi == 14

HelloAttrsOK(a, tl, gf) ==
  LET need(t, v, g) == Bit(gf, g) \/ TlvVal(tl, t) = v
      wl == a.wifi = 1 /\ ~Bit(gf, GWMode)
  IN /\ need(1, a.mac, GMac)
     /\ TlvVal(tl, 2) = << a.flags \div 256, a.flags % 256, 0, 0 >>
     /\ need(3, BE32h(a.iftype[1], a.iftype[2]), GIfType)
     /\ need(7, a.ipv4, GIPv4)
     /\ need(8, a.ipv6, GIPv6)
     /\ need(12, BE32h(a.speed[1], a.speed[2]), GSpeed)
     /\ need(15, Prefix(a.host, 32), GHost)
     /\ HasTlv(tl, 10) /\ Len(TlvVal(tl, 10)) = 8
     /\ HasTlv(tl, 20) /\ Len(TlvVal(tl, 20)) = 4
     /\ IF wl THEN /\ TlvVal(tl, 4) = << a.wmode >>
                   /\ need(5, a.bssid, GBssid)
                   /\ need(6, Prefix(a.ssid, 32), GSsid)
                   /\ need(9, BE16(a.rate), GRate)
                   /\ need(13, SignExt8(a.rssi), GRssi)
        ELSE a.wifi = 1 \/ \A t \in {4, 5, 6, 9, 13} : ~HasTlv(tl, t)

(* ------------------------------------------------------------------ Discover (ToS 0/1) *)
HelloOK(cfg, req, f) ==
  /\ f.op = OpHello /\ f.tos = req.tos /\ f.seq = 0
  /\ f.ed = BCAST /\ f.rd = BCAST /\ f.es = cfg.own /\ f.rs = cfg.own
  /\ f.cur = req.rs /\ f.app = req.es /\ f.gen = req.gen

NSDiscover(cfg, st, req, out, gf) ==
  LET fr == Frames(out)
      replied == Len(fr) > 0
      mayAccept == ~st.mapper.known \/ st.mapper.real = req.rs
      ok == /\ Chk("C02") => Len(fr) <= 1 /\ OpsIn(fr, {OpHello})
            /\ Chk("C05") => (replied <=> mayAccept)
            \* an accepted Discover (C05's rule, on the tracked mapper) is answered - by exactly one correct Hello
            /\ Chk("C03") => /\ replied => (Len(fr) = 1 /\ HelloOK(cfg, req, fr[1]))
                             /\ mayAccept => replied
            /\ Chk("C04") => (replied /\ fr[1].op = OpHello => HelloAttrsOK(cfg.attrs, fr[1].tlvs, gf))
  IN IF ok THEN { IF replied THEN MapperSet(st, req.rs, req.es) ELSE st } ELSE {}

(* ------------------------------------------------------------------ Emit (ToS 0) *)
ProbeOK(cfg, d, f) ==
  /\ f.n = 32 /\ f.op = (IF d.kind = 1 THEN OpProbe ELSE OpTrain)
  /\ f.es = d.src /\ f.ed = d.dst /\ f.rs = cfg.own

AckOK(cfg, st, req, f) ==
  /\ f.n = 32 /\ f.op = OpAck /\ f.seq = req.seq /\ f.rs = cfg.own
  /\ f.rd = st.mapper.real
  /\ f.ed \in ({st.mapper.real, req.es} \cup st.mapper.apps)       \* freedom AckToRealOrApparent

EmitInDomain(st, req) ==
  /\ IsMapper(st, req.rs) /\ req.seq # 0
  /\ req.declared >= 1 /\ 34 + 14 * req.declared <= req.len
  /\ Len(req.descs) = req.declared
  /\ \A i \in 1..Len(req.descs) : req.descs[i].kind \in {0, 1}

(* exactly n Probe/Train in descriptor order, each after its pause (freedom ExtraSleep:  *)
(* more or split sleeps are fine), then exactly one ACK                                  *)
EmitExact(cfg, st, req, out) ==
  LET ix == TxIdx(out)
      n  == req.declared
      prev(i) == IF i = 1 THEN 0 ELSE ix[i - 1]
  IN /\ Len(ix) = n + 1
     /\ \A i \in 1..n : /\ ProbeOK(cfg, req.descs[i], out[ix[i]].f)
                        /\ SumMs(out, prev(i) + 1, ix[i] - 1) >= req.descs[i].pause
     /\ AckOK(cfg, st, req, out[ix[n + 1]].f)

EmitBounded(cfg, req, out) ==
  LET fr == Frames(out) IN
  /\ OpsIn(fr, {OpProbe, OpTrain, OpAck})
  /\ CountOps(fr, {OpProbe, OpTrain}) <= Min(req.declared, EmitCap(cfg.mtu))
  /\ CountOps(fr, {OpAck}) <= 1

NSEmit(cfg, st, req, out) ==
  LET ok == /\ Chk("C02") => EmitBounded(cfg, req, out)
            /\ Chk("C06") => /\ EmitBounded(cfg, req, out)
                             /\ EmitInDomain(st, req) => EmitExact(cfg, st, req, out)
  IN IF ok THEN AfterCommand(st, req) ELSE {}

(* ------------------------------------------------------------------ Probe / Train (ToS 0) *)
NSProbe(cfg, st, req, out) ==
  LET new == [rs |-> req.rs, es |-> req.es, ed |-> req.ed]
      collide == {o \in st.obs : o.rs = new.rs /\ o.es = new.es /\ o # new}
      nexts == IF req.rd # cfg.own THEN {st.obs}                         \* not for this station: never recorded
               ELSE IF new \in st.obs THEN {st.obs}                      \* identical repeat
               ELSE IF collide # {}                                      \* freedom KeyCollisionKeepsEither
                    THEN {st.obs, (st.obs \ collide) \cup {new}, st.obs \cup {new}}
               ELSE IF Cardinality(st.obs) >= ObsCapFloor                \* freedom CapAnyAtLeast300: a cap may drop it;
                    THEN (IF req.grew = "yes" THEN {st.obs \cup {new}}      \* whether it did is read off the allocation
                          ELSE IF req.grew = "no" THEN {st.obs}              \* ledger (one more node retained or not),
                          ELSE {st.obs, st.obs \cup {new}})                 \* so the monitor does not branch per frame
               ELSE {st.obs \cup {new}}
  IN IF Chk("C02") => Frames(out) = << >>
     THEN {[st EXCEPT !.obs = o] : o \in nexts} ELSE {}

(* ------------------------------------------------------------------ Query (ToS 0) *)
DescSet(f) == {[rs |-> f.descs[i].rs, es |-> f.descs[i].es, ed |-> f.descs[i].ed] : i \in 1..Len(f.descs)}

QueryRespOK(cfg, st, req, f) ==
  LET D == DescSet(f) IN
  /\ f.op = OpQueryResp /\ f.seq = req.seq /\ f.rs = cfg.own
  /\ f.ed = (IF req.rs = req.es THEN req.rs ELSE BCAST)                 \* to the mapper; broadcast when bridged
  /\ Cardinality(D) = Len(f.descs)                                      \* none twice
  /\ D \subseteq st.obs                                                 \* none invented
  /\ Len(f.descs) <= QueryCap(cfg.mtu)
  /\ ~f.more => D = st.obs                                              \* flag clear: everything delivered
  /\ f.more => D # {}                                                   \* flag set: progress
  /\ (f.more /\ D = st.obs) => Len(f.descs) = QueryCap(cfg.mtu)         \* freedom MoreWhenExactlyFull

NSQuery(cfg, st, req, out) ==
  LET fr == Frames(out)
      drained == IF Len(fr) = 1 /\ fr[1].op = OpQueryResp THEN st.obs \ DescSet(fr[1]) ELSE st.obs
      ok == /\ Chk("C02") => Len(fr) <= 1 /\ OpsIn(fr, {OpQueryResp})
            /\ Chk("C07") => (CmdInDomain(st, req) => Len(fr) = 1 /\ QueryRespOK(cfg, st, req, fr[1]))
  IN IF ok THEN AfterCommand([st EXCEPT !.obs = drained], req) ELSE {}

(* ------------------------------------------------------------------ QueryLargeTlv (ToS 0/1) *)
LargeRespOK(cfg, req, f) ==
  LET d == DataFor(cfg, req.ltype)
      len == Len(f.pay)
  IN /\ f.op = OpQueryLargeResp /\ f.seq = req.seq
     /\ f.n = 34 + len
     /\ ChunkOK(d.size, req.off, LargeCap(cfg.mtu), len, f.more)
     /\ \A k \in 1..len : f.pay[k] = LData(d, req.off + k - 1)

NSLarge(cfg, st, req, out) ==
  LET fr == Frames(out)
      ok == /\ Chk("C02") => Len(fr) <= 1 /\ OpsIn(fr, {OpQueryLargeResp})
            \* whoever asks: a response, if one is sent, answers THAT request (sequence number, offset, bytes);
            \* the active mapper (or anyone while none is active) must be answered
            /\ Chk("C08") => IF req.seq = 0 THEN fr = << >>
                             ELSE /\ CmdInDomain(st, req) => Len(fr) = 1
                                  /\ Len(fr) >= 1 => LargeRespOK(cfg, req, fr[1])
  \* a request with sequence number 0 is ignored: it is not answered and opens nothing
  IN IF ok THEN (IF req.seq = 0 THEN {st} ELSE AfterCommand(st, req)) ELSE {}

(* ------------------------------------------------------------------ Reset, everything else *)
NSReset(cfg, st, req, out) ==
  IF Chk("C02") => Frames(out) = << >>
  THEN IF req.tos = 0 THEN {InitState}
       ELSE {[st EXCEPT !.mapper = NoMapper], [st EXCEPT !.mapper = NoMapper, !.obs = {}]}
  ELSE {}

NSIgnored(cfg, st, req, out) ==
  IF Chk("C02") => Frames(out) = << >> THEN {st} ELSE {}

(* ------------------------------------------------------------------ dispatch *)
Handled(cfg, st, req, out, gf) ==
  CASE req.op = OpDiscover /\ req.tos \in {0, 1} -> NSDiscover(cfg, st, req, out, gf)
    [] req.op = OpReset /\ req.tos \in {0, 1}    -> NSReset(cfg, st, req, out)
    [] req.op = OpQueryLarge /\ req.tos \in {0, 1} -> NSLarge(cfg, st, req, out)
    [] req.op = OpEmit /\ req.tos = 0            -> NSEmit(cfg, st, req, out)
    [] req.op \in {OpProbe, OpTrain} /\ req.tos = 0 -> NSProbe(cfg, st, req, out)
    [] req.op = OpQuery /\ req.tos = 0           -> NSQuery(cfg, st, req, out)
    \* quick discovery has no Emit/Probe/Query: ignoring them or serving them are both allowed
    [] req.op = OpEmit /\ req.tos = 1            -> NSIgnored(cfg, st, req, out) \cup NSEmit(cfg, st, req, out)
    [] req.op \in {OpProbe, OpTrain} /\ req.tos = 1 -> NSIgnored(cfg, st, req, out) \cup NSProbe(cfg, st, req, out)
    [] req.op = OpQuery /\ req.tos = 1           -> NSIgnored(cfg, st, req, out) \cup NSQuery(cfg, st, req, out)
    [] OTHER                                     -> NSIgnored(cfg, st, req, out)

(* Per-frame clause of C02, in every situation (also under faults, where fields fed by a   *)
(* failed getter are free: the caller passes frames decoded accordingly).                  *)
TxClauseOK(out) == Chk("C02") => AllWF(out)

(* flt # 0: a platform fault fired while this request was served (C18).  The reaction must  *)
(* still consist of well-formed frames within the bounds of a fault-free reaction; what the *)
(* request did to the state is not specified until a topology Reset.                        *)
FaultBound(cfg, req, out) ==
  LET fr == Frames(out) IN
  CASE req.op = OpEmit -> EmitBounded(cfg, req, out)
    [] req.op \in {OpDiscover, OpQuery, OpQueryLarge} -> Len(fr) <= 1
    [] OTHER -> fr = << >>

NextStates(cfg, st, req, out, flt, gf) ==
  IF ~TxClauseOK(out) THEN {}
  ELSE IF req.op = OpReset /\ req.tos = 0 /\ flt = 0 THEN NSReset(cfg, st, req, out)   \* leaves havoc
  ELSE IF st.havoc \/ flt # 0
       THEN IF Chk("C18") => FaultBound(cfg, req, out) THEN {[st EXCEPT !.havoc = TRUE]} ELSE {}
  ELSE IF req.hv THEN Handled(cfg, st, req, out, gf)
  \* freedom MalformedHeaderMayBeIgnored: wrong EtherType/version may be dropped or served
  ELSE Handled(cfg, st, req, out, gf) \cup NSIgnored(cfg, st, req, out)

=============================================================================
