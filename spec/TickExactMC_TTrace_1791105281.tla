---- MODULE TickExactMC_TTrace_1791105281 ----
EXTENDS Sequences, TLCExt, Toolbox, Naturals, TLC, TickExactMC

_expression ==
    LET TickExactMC_TEExpression == INSTANCE TickExactMC_TEExpression
    IN TickExactMC_TEExpression!expression
----

_trace ==
    LET TickExactMC_TETrace == INSTANCE TickExactMC_TETrace
    IN TickExactMC_TETrace!trace
----

_inv ==
    ~(
        TLCGet("level") = Len(_TETrace)
        /\
        lastIn = (37)
        /\
        f = ([ms |-> 1, live |-> {[key |-> 2, gen |-> 1, last |-> 31, complete |-> FALSE]}, es |-> 1, hto |-> 37299, bto |-> 37479, lasttx |-> 37179, ni |-> <<0, 45>>, r |-> <<0, 0>>, begun |-> 1, ctc |-> 2, cdl |-> 38, inact |-> 67, clamped |-> FALSE])
        /\
        now = (37179)
        /\
        gap = (999)
        /\
        why = ("Hellos less than a second apart")
        /\
        sentAt = (37179)
    )
----

_init ==
    /\ f = _TETrace[1].f
    /\ now = _TETrace[1].now
    /\ why = _TETrace[1].why
    /\ gap = _TETrace[1].gap
    /\ sentAt = _TETrace[1].sentAt
    /\ lastIn = _TETrace[1].lastIn
----

_next ==
    /\ \E i,j \in DOMAIN _TETrace:
        /\ \/ /\ j = i + 1
              /\ i = TLCGet("level")
        /\ f  = _TETrace[i].f
        /\ f' = _TETrace[j].f
        /\ now  = _TETrace[i].now
        /\ now' = _TETrace[j].now
        /\ why  = _TETrace[i].why
        /\ why' = _TETrace[j].why
        /\ gap  = _TETrace[i].gap
        /\ gap' = _TETrace[j].gap
        /\ sentAt  = _TETrace[i].sentAt
        /\ sentAt' = _TETrace[j].sentAt
        /\ lastIn  = _TETrace[i].lastIn
        /\ lastIn' = _TETrace[j].lastIn

\* Uncomment the ASSUME below to write the states of the error trace
\* to the given file in Json format. Note that you can pass any tuple
\* to `JsonSerialize`. For example, a sub-sequence of _TETrace.
    \* ASSUME
    \*     LET J == INSTANCE Json
    \*         IN J!JsonSerialize("TickExactMC_TTrace_1791105281.json", _TETrace)

=============================================================================

 Note that you can extract this module `TickExactMC_TEExpression`
  to a dedicated file to reuse `expression` (the module in the 
  dedicated `TickExactMC_TEExpression.tla` file takes precedence 
  over the module `TickExactMC_TEExpression` below).

---- MODULE TickExactMC_TEExpression ----
EXTENDS Sequences, TLCExt, Toolbox, Naturals, TLC, TickExactMC

expression == 
    [
        \* To hide variables of the `TickExactMC` spec from the error trace,
        \* remove the variables below.  The trace will be written in the order
        \* of the fields of this record.
        f |-> f
        ,now |-> now
        ,why |-> why
        ,gap |-> gap
        ,sentAt |-> sentAt
        ,lastIn |-> lastIn
        
        \* Put additional constant-, state-, and action-level expressions here:
        \* ,_stateNumber |-> _TEPosition
        \* ,_fUnchanged |-> f = f'
        
        \* Format the `f` variable as Json value.
        \* ,_fJson |->
        \*     LET J == INSTANCE Json
        \*     IN J!ToJson(f)
        
        \* Lastly, you may build expressions over arbitrary sets of states by
        \* leveraging the _TETrace operator.  For example, this is how to
        \* count the number of times a spec variable changed up to the current
        \* state in the trace.
        \* ,_fModCount |->
        \*     LET F[s \in DOMAIN _TETrace] ==
        \*         IF s = 1 THEN 0
        \*         ELSE IF _TETrace[s].f # _TETrace[s-1].f
        \*             THEN 1 + F[s-1] ELSE F[s-1]
        \*     IN F[_TEPosition - 1]
    ]

=============================================================================



Parsing and semantic processing can take forever if the trace below is long.
 In this case, it is advised to uncomment the module below to deserialize the
 trace from a generated binary file.

\*
\*---- MODULE TickExactMC_TETrace ----
\*EXTENDS IOUtils, TLC, TickExactMC
\*
\*trace == IODeserialize("TickExactMC_TTrace_1791105281.bin", TRUE)
\*
\*=============================================================================
\*

---- MODULE TickExactMC_TETrace ----
EXTENDS TLC, TickExactMC

trace == 
    <<
    ([lastIn |-> 1,f |-> [ms |-> 0, live |-> {}, es |-> 0, hto |-> -1, bto |-> -1, lasttx |-> 0, ni |-> <<0, 45>>, r |-> <<0, 0>>, begun |-> 0, ctc |-> 0, cdl |-> -1, inact |-> 0, clamped |-> FALSE],now |-> 1000,gap |-> -1,why |-> "ok",sentAt |-> -1]),
    ([lastIn |-> 1,f |-> [ms |-> 0, live |-> {}, es |-> 0, hto |-> -1, bto |-> -1, lasttx |-> 0, ni |-> <<0, 45>>, r |-> <<0, 0>>, begun |-> 0, ctc |-> 0, cdl |-> -1, inact |-> 31, clamped |-> FALSE],now |-> 1000,gap |-> -1,why |-> "ok",sentAt |-> -1]),
    ([lastIn |-> 1,f |-> [ms |-> 0, live |-> {}, es |-> 0, hto |-> -1, bto |-> -1, lasttx |-> 0, ni |-> <<0, 45>>, r |-> <<0, 0>>, begun |-> 0, ctc |-> 0, cdl |-> -1, inact |-> 31, clamped |-> FALSE],now |-> 1120,gap |-> -1,why |-> "ok",sentAt |-> -1]),
    ([lastIn |-> 1,f |-> [ms |-> 0, live |-> {}, es |-> 0, hto |-> -1, bto |-> -1, lasttx |-> 0, ni |-> <<0, 45>>, r |-> <<0, 0>>, begun |-> 0, ctc |-> 0, cdl |-> -1, inact |-> 31, clamped |-> FALSE],now |-> 1170,gap |-> -1,why |-> "ok",sentAt |-> -1]),
    ([lastIn |-> 1,f |-> [ms |-> 0, live |-> {}, es |-> 0, hto |-> -1, bto |-> -1, lasttx |-> 0, ni |-> <<0, 45>>, r |-> <<0, 0>>, begun |-> 0, ctc |-> 0, cdl |-> -1, inact |-> 31, clamped |-> FALSE],now |-> 31170,gap |-> -1,why |-> "ok",sentAt |-> -1]),
    ([lastIn |-> 31,f |-> [ms |-> 1, live |-> {[key |-> 2, gen |-> 1, last |-> 31, complete |-> FALSE]}, es |-> 1, hto |-> 31290, bto |-> 31470, lasttx |-> 0, ni |-> <<0, 45>>, r |-> <<0, 0>>, begun |-> 0, ctc |-> 0, cdl |-> -1, inact |-> 61, clamped |-> FALSE],now |-> 31180,gap |-> -1,why |-> "ok",sentAt |-> -1]),
    ([lastIn |-> 31,f |-> [ms |-> 1, live |-> {[key |-> 2, gen |-> 1, last |-> 31, complete |-> FALSE]}, es |-> 1, hto |-> 31290, bto |-> 31470, lasttx |-> 0, ni |-> <<0, 45>>, r |-> <<0, 0>>, begun |-> 0, ctc |-> 0, cdl |-> -1, inact |-> 61, clamped |-> FALSE],now |-> 36180,gap |-> -1,why |-> "ok",sentAt |-> -1]),
    ([lastIn |-> 36,f |-> [ms |-> 1, live |-> {[key |-> 2, gen |-> 1, last |-> 31, complete |-> FALSE]}, es |-> 1, hto |-> 36300, bto |-> 36480, lasttx |-> 36180, ni |-> <<0, 45>>, r |-> <<0, 0>>, begun |-> 1, ctc |-> 1, cdl |-> 37, inact |-> 66, clamped |-> FALSE],now |-> 36180,gap |-> -1,why |-> "ok",sentAt |-> 36180]),
    ([lastIn |-> 36,f |-> [ms |-> 1, live |-> {[key |-> 2, gen |-> 1, last |-> 31, complete |-> FALSE]}, es |-> 1, hto |-> 36300, bto |-> 36480, lasttx |-> 36180, ni |-> <<0, 45>>, r |-> <<0, 0>>, begun |-> 1, ctc |-> 1, cdl |-> 37, inact |-> 66, clamped |-> FALSE],now |-> 37179,gap |-> -1,why |-> "ok",sentAt |-> 36180]),
    ([lastIn |-> 37,f |-> [ms |-> 1, live |-> {[key |-> 2, gen |-> 1, last |-> 31, complete |-> FALSE]}, es |-> 1, hto |-> 37299, bto |-> 37479, lasttx |-> 37179, ni |-> <<0, 45>>, r |-> <<0, 0>>, begun |-> 1, ctc |-> 2, cdl |-> 38, inact |-> 67, clamped |-> FALSE],now |-> 37179,gap |-> 999,why |-> "Hellos less than a second apart",sentAt |-> 37179])
    >>
----


=============================================================================

---- CONFIG TickExactMC_TTrace_1791105281 ----

INVARIANT
    _inv

CHECK_DEADLOCK
    \* CHECK_DEADLOCK off because of PROPERTY or INVARIANT above.
    FALSE

INIT
    _init

NEXT
    _next

CONSTANT
    _TETrace <- _trace

ALIAS
    _expression
=============================================================================
\* Generated on Sun Oct 04 09:14:42 UTC 2026