SPECIFICATION Spec
CONSTANT Mtu = 74
CONSTANT Scope = 1
CONSTANT Check = {"C02","C03","C05","C06","C07","C08","C09","C18"}
INVARIANT C07H
PROPERTY C05H C05F C07NoTwice C07Complete C09H C02H C06H
CHECK_DEADLOCK FALSE
VIEW View
