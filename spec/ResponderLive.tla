---------------------------- MODULE ResponderLive ----------------------------
(***************************************************************************)
(* Liveness on the general specification (beyond the safety phrasing of    *)
(* C07): once the environment only lets the mapper query - no more probes, *)
(* no other traffic - every allowed implementation delivers everything it  *)
(* still holds: a drain eventually clears the 'more' flag.  The responder  *)
(* may answer each Query with ANY QueryResp the specification allows       *)
(* (partial drains of any size >= 1).  Checked under weak fairness of the  *)
(* mapper's Query.                                                         *)
(***************************************************************************)
EXTENDS ResponderMC

VARIABLE phase
lvars == << st, req, out, opener, taint, pend, collided, phase >>

LInit == Init /\ phase = "any"

DrainQuery ==
  LET mr == IF st.mapper.known THEN st.mapper.real ELSE M1
      r  == Rq(OpQuery, 0, mr, Own, mr, Own, 7)
  IN \E o \in UQuery(r, st) : \E nx \in NextStates(Cfg, st, r, o, 0, 0) : Step(r, o, nx)

LNext == \/ phase = "any" /\ Next /\ phase' = "any"
         \/ phase = "any" /\ phase' = "drain" /\ UNCHANGED vars
         \/ phase = "drain" /\ DrainQuery /\ phase' = "drain"

LSpec == LInit /\ [][LNext]_lvars /\ WF_lvars(phase = "drain" /\ DrainQuery /\ phase' = "drain")

(* in the drain phase the pending observations (history ghost) eventually all get reported *)
DrainCompletes == (phase = "drain") ~> (pend = {} \/ collided)
LView == << st, opener, taint, pend, collided, phase >>
=============================================================================
