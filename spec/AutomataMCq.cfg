SPECIFICATION Spec
CONSTANTS Keys = {1, 2}
          Cap = 1
INVARIANT CountOK UniqueOK AllCompleteOK ActiveImpliesFrame
PROPERTY NoStale InactiveEnds
CHECK_DEADLOCK FALSE
