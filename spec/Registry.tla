------------------------------ MODULE Registry ------------------------------
(***************************************************************************)
(* The per-interface state registry of lltdBlock.c (g_iface_states,        *)
(* lltd_state_for_iface) at the granularity of its shared-memory accesses, *)
(* one process per receive thread.  Every daemon serves each interface on  *)
(* its own thread; the first frame on an interface creates its record.     *)
(*                                                                         *)
(* Steps of one call (the yield hooks of the code sit between them):       *)
(*   Lookup   read the list head and walk the list (published nodes are    *)
(*            never written again, so the walk is atomic with the read)    *)
(*   Link     allocate a record, set its context, read the head again into *)
(*            its next pointer                                             *)
(*   Publish  store the record as the new head                             *)
(* A thread makes Calls calls (first frame, later frames).                 *)
(***************************************************************************)
EXTENDS Naturals, Sequences, FiniteSets, TLC, Json

CONSTANTS Threads, Calls, Locked   \* Locked = TRUE models a registry protected by a lock (the repaired design)

(* --algorithm registry {
variables head = 0,                    \* 0 = NULL; nodes are numbered from 1
          ctxOf = << >>,               \* node -> owning interface
          nextOf = << >>,              \* node -> next node
          lock = 0,
          got = [t \in Threads |-> << >>],   \* per thread: the record each call returned
          sched = << >>;               \* history: the schedule, for replay on the real code

define {
  RECURSIVE ReachFrom(_)
  ReachFrom(n) == IF n = 0 THEN {} ELSE {n} \cup ReachFrom(nextOf[n])
  Reach == ReachFrom(head)
  OwnersReachable == {ctxOf[n] : n \in Reach}
}

process (T \in Threads)
variables cur = 0, st = 0, k = 0;
{
Call:
  while (k < Calls) {
Acquire:
    await Locked => lock = 0;
    if (Locked) { lock := self };
Lookup:
    sched := Append(sched, << self, "lookup" >>);
    cur := head;
    if (\E n \in ReachFrom(cur) : ctxOf[n] = self) {
      st := CHOOSE n \in ReachFrom(cur) : ctxOf[n] = self;
    } else {
Link:
      sched := Append(sched, << self, "link" >>);
      st := Len(ctxOf) + 1;
      ctxOf := Append(ctxOf, self);
      nextOf := Append(nextOf, head);
Publish:
      sched := Append(sched, << self, "publish" >>);
      head := st;
    };
Return:
    got[self] := Append(got[self], st);
    k := k + 1;
    if (Locked) { lock := 0 };
  }
}
} *)
\* BEGIN TRANSLATION (chksum(pcal) = "d56a5c14" /\ chksum(tla) = "e7a4fd72")
VARIABLES pc, head, ctxOf, nextOf, lock, got, sched

(* define statement *)
RECURSIVE ReachFrom(_)
ReachFrom(n) == IF n = 0 THEN {} ELSE {n} \cup ReachFrom(nextOf[n])
Reach == ReachFrom(head)
OwnersReachable == {ctxOf[n] : n \in Reach}

VARIABLES cur, st, k

vars == << pc, head, ctxOf, nextOf, lock, got, sched, cur, st, k >>

ProcSet == (Threads)

Init == (* Global variables *)
        /\ head = 0
        /\ ctxOf = << >>
        /\ nextOf = << >>
        /\ lock = 0
        /\ got = [t \in Threads |-> << >>]
        /\ sched = << >>
        (* Process T *)
        /\ cur = [self \in Threads |-> 0]
        /\ st = [self \in Threads |-> 0]
        /\ k = [self \in Threads |-> 0]
        /\ pc = [self \in ProcSet |-> "Call"]

Call(self) == /\ pc[self] = "Call"
              /\ IF k[self] < Calls
                    THEN /\ pc' = [pc EXCEPT ![self] = "Acquire"]
                    ELSE /\ pc' = [pc EXCEPT ![self] = "Done"]
              /\ UNCHANGED << head, ctxOf, nextOf, lock, got, sched, cur, st, 
                              k >>

Acquire(self) == /\ pc[self] = "Acquire"
                 /\ Locked => lock = 0
                 /\ IF Locked
                       THEN /\ lock' = self
                       ELSE /\ TRUE
                            /\ lock' = lock
                 /\ pc' = [pc EXCEPT ![self] = "Lookup"]
                 /\ UNCHANGED << head, ctxOf, nextOf, got, sched, cur, st, k >>

Lookup(self) == /\ pc[self] = "Lookup"
                /\ sched' = Append(sched, << self, "lookup" >>)
                /\ cur' = [cur EXCEPT ![self] = head]
                /\ IF \E n \in ReachFrom(cur'[self]) : ctxOf[n] = self
                      THEN /\ st' = [st EXCEPT ![self] = CHOOSE n \in ReachFrom(cur'[self]) : ctxOf[n] = self]
                           /\ pc' = [pc EXCEPT ![self] = "Return"]
                      ELSE /\ pc' = [pc EXCEPT ![self] = "Link"]
                           /\ st' = st
                /\ UNCHANGED << head, ctxOf, nextOf, lock, got, k >>

Link(self) == /\ pc[self] = "Link"
              /\ sched' = Append(sched, << self, "link" >>)
              /\ st' = [st EXCEPT ![self] = Len(ctxOf) + 1]
              /\ ctxOf' = Append(ctxOf, self)
              /\ nextOf' = Append(nextOf, head)
              /\ pc' = [pc EXCEPT ![self] = "Publish"]
              /\ UNCHANGED << head, lock, got, cur, k >>

Publish(self) == /\ pc[self] = "Publish"
                 /\ sched' = Append(sched, << self, "publish" >>)
                 /\ head' = st[self]
                 /\ pc' = [pc EXCEPT ![self] = "Return"]
                 /\ UNCHANGED << ctxOf, nextOf, lock, got, cur, st, k >>

Return(self) == /\ pc[self] = "Return"
                /\ got' = [got EXCEPT ![self] = Append(got[self], st[self])]
                /\ k' = [k EXCEPT ![self] = k[self] + 1]
                /\ IF Locked
                      THEN /\ lock' = 0
                      ELSE /\ TRUE
                           /\ lock' = lock
                /\ pc' = [pc EXCEPT ![self] = "Call"]
                /\ UNCHANGED << head, ctxOf, nextOf, sched, cur, st >>

T(self) == Call(self) \/ Acquire(self) \/ Lookup(self) \/ Link(self)
              \/ Publish(self) \/ Return(self)

(* Allow infinite stuttering to prevent deadlock on termination. *)
Terminating == /\ \A self \in ProcSet: pc[self] = "Done"
               /\ UNCHANGED vars

Next == (\E self \in Threads: T(self))
           \/ Terminating

Spec == Init /\ [][Next]_vars

Termination == <>(\A self \in ProcSet: pc[self] = "Done")

\* END TRANSLATION 

(* ------------------------------------------------------------------ properties (C17) *)
Done == \A t \in Threads : pc[t] = "Done"

(* no lost state: every call of a thread returned the same record, and that record is reachable *)
NoLostState ==
  Done => \A t \in Threads : /\ \A i \in 1..Len(got[t]) : got[t][i] = got[t][1]
                              /\ got[t][1] \in Reach
(* no cross-talk: a thread is only ever handed a record of its own interface *)
NoSharedRecord == \A t \in Threads : \A i \in 1..Len(got[t]) : ctxOf[got[t][i]] = t

(* terminal states print their schedule and outcome: bin/check forces every such schedule *)
(* through the yield hooks of the real code and compares                                  *)
DumpTerminal ==
  Done => PrintT(<< "SCHED", ToJson([steps |-> sched, reach |-> OwnersReachable,
                                    lost |-> {t \in Threads : \E i \in 1..Len(got[t]) : got[t][i] # got[t][1]}]) >>)

=============================================================================
