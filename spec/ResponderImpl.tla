--------------------------- MODULE ResponderImpl ---------------------------
(***************************************************************************)
(* The deterministic MECHANISM of lltdBlock.c as the code has it (after    *)
(* the fix: commits recorded in known_findings.json): LIFO observation     *)
(* list with the (Ethernet source, real source) de-duplication key, the    *)
(* Discover pre-step and set_active_mapper / parseQuery takeover rules     *)
(* exactly as coded, maximal chunks, the descriptor clamp, the list cap.   *)
(*                                                                         *)
(* TLC checks that every step of the mechanism is an allowed step of the   *)
(* general specification Responder (refinement, config ResponderImpl.cfg)  *)
(* and dumps the explored transitions for replay on the real code          *)
(* (transition cover G1).                                                  *)
(***************************************************************************)
EXTENDS MCUniverse, Json, SequencesExt

(* the mechanism itself lives in Mechanism.tla (MCUniverse extends it); here it is instantiated on the *)
(* configuration of the small universe                                                                 *)
IInit == MInit
IStep(s, r) == MStep(Cfg, s, r)

(* ------------------------------------------------------------ refinement *)
VARIABLES ist, ast, req, out
ivars == << ist, ast, req, out >>

ObsOfSee(see) == { [rs |-> see[i].rs, es |-> see[i].es, ed |-> see[i].ed] : i \in 1..Len(see) }
Agree(a, s) == /\ a.mapper.known = s.known
               /\ s.known => (a.mapper.real = s.real /\ s.app \in a.mapper.apps)
               /\ a.obs = ObsOfSee(s.see)
               /\ ~a.havoc

Stuck == [mapper |-> NoMapper, obs |-> {}, havoc |-> TRUE]

ImplInit == ist = IInit /\ ast = InitState /\ req = Rq(OpAck, 2, X, Own, X, Own, 0) /\ out = << >>

ImplNext ==
  \E r \in Reqs :
    LET res == IStep(ist, r)
        allowed == { nx \in NextStates(Cfg, ast, r, res.out, 0, 0) : Agree(nx, res.st) }
    IN /\ ist' = res.st /\ req' = r /\ out' = res.out
       /\ ast' = IF allowed = {} THEN Stuck ELSE CHOOSE nx \in allowed : TRUE

ImplSpec == ImplInit /\ [][ImplNext]_ivars

(* every step of the mechanism is an allowed step of the general specification *)
Refines == ast # Stuck
ImplView == << ist, ast >>

=============================================================================
