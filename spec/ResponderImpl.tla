--------------------------- MODULE ResponderImpl ---------------------------
(***************************************************************************)
(* The deterministic MECHANISM of lltdBlock.c as the code has it (after    *)
(* the fix: commits recorded in known_findings.json): LIFO observation     *)
(* list with the (Ethernet source, real source) de-duplication key, the    *)
(* Discover pre-step and set_active_mapper / parseQuery takeover rules     *)
(* exactly as coded, maximal chunks, the descriptor clamp, the list cap.   *)
(*                                                                         *)
(* TLC checks that every step of the mechanism is an allowed step of the   *)
(* general specification Responder (refinement, config ResponderImpl.cfg)  *)
(* and dumps the explored transitions for replay on the real code          *)
(* (transition cover G1).                                                  *)
(***************************************************************************)
EXTENDS MCUniverse, Json, SequencesExt

SeeMax == 1024

IInit == [ known |-> FALSE, real |-> << >>, app |-> << >>, seq |-> 0, genT |-> 0, genQ |-> 0,
           see |-> << >>, icon |-> FALSE ]

Matches(s, a) == ~s.known \/ s.real = a
SetActive(s, real, app) == IF s.known THEN s ELSE [s EXCEPT !.known = TRUE, !.real = real, !.app = app]

(* ---- answerHello *)
IHello(s0, r) ==
  LET s1 == [SetActive(s0, r.rs, r.es) EXCEPT !.seq = r.seq]
      g  == IF r.tos = 1 THEN s1.genQ ELSE s1.genT
      f  == [Fr(OpHello, r.tos, Own, BCAST, Own, BCAST, 0, 60) EXCEPT !.gen = g, !.cur = r.rs, !.app = r.es]
  IN [st |-> s1, out |-> << T(f) >>]

(* ---- parseEmit / sendProbeMsg *)
RECURSIVE EmitOut(_, _, _, _)
EmitOut(s, r, i, n) ==
  IF i > n THEN << >>
  ELSE LET d == r.descs[i]
           one == IF d.kind \in {0, 1}
                  THEN << S(d.pause), T(Fr(IF d.kind = 1 THEN OpProbe ELSE OpTrain, 0, d.src, d.dst, Own, d.dst, 0, 32)) >>
                       \o (IF i = n THEN << T(Fr(OpAck, 0, Own, s.app, Own, s.real, s.seq, 32)) >> ELSE << >>)
                  ELSE << >>
       IN one \o EmitOut(s, r, i + 1, n)

IEmit(s0, r) ==
  LET s1 == SetActive([s0 EXCEPT !.seq = r.seq], r.rs, r.es)
      n  == Min(r.declared, EmitCap(Mtu))
  IN [st |-> s1, out |-> EmitOut(s1, r, 1, n)]

(* ---- parseProbe *)
IProbe(s, r) ==
  LET new == [rs |-> r.rs, es |-> r.es, ed |-> r.ed, ty |-> IF r.op = OpProbe THEN 1 ELSE 0]
      dup == \E i \in 1..Len(s.see) : s.see[i].es = new.es /\ s.see[i].rs = new.rs
  IN [st |-> IF r.rd # Own \/ dup \/ Len(s.see) >= SeeMax THEN s ELSE [s EXCEPT !.see = << new >> \o s.see], out |-> << >>]

(* ---- parseQuery *)
IQuery(s0, r) ==
  LET s1 == [s0 EXCEPT !.seq = r.seq, !.known = TRUE, !.real = r.rs, !.app = r.es]
      dest == IF r.rs = r.es THEN r.rs ELSE BCAST
      n == Min(Len(s1.see), QueryCap(Mtu))
      f == [Fr(OpQueryResp, 0, Own, dest, Own, dest, r.seq, 34 + 20 * n) EXCEPT
              !.more = Len(s1.see) > n, !.descs = [i \in 1..n |-> s1.see[i]]]
  IN [st |-> [s1 EXCEPT !.see = SubSeq(s1.see, n + 1, Len(s1.see))], out |-> << T(f) >>]

(* ---- parseQueryLargeTlv / sendLargeTlvResponse *)
ILarge(s0, r) ==
  IF r.seq = 0 THEN [st |-> s0, out |-> << >>]
  ELSE
  LET s1 == SetActive([s0 EXCEPT !.seq = r.seq], r.rs, r.es)
      s2 == IF r.ltype = 14 THEN [s1 EXCEPT !.icon = TRUE] ELSE s1
      d == DataFor(Cfg, r.ltype)
      cap == LargeCap(Mtu)
      len == IF d.size > r.off + cap THEN cap ELSE IF d.size > r.off THEN d.size - r.off ELSE 0
      dest == IF r.rs = r.es THEN r.rs ELSE BCAST
      f == [Fr(OpQueryLargeResp, 0, Own, dest, Own, dest, r.seq, 34 + len) EXCEPT
              !.more = d.size > r.off + cap, !.pay = [k \in 1..len |-> LData(d, r.off + k - 1)]]
  IN [st |-> s2, out |-> << T(f) >>]

(* ---- parseFrame *)
IStep(s0, r) ==
  LET pre == r.op = OpDiscover /\ r.tos \in {0, 1}
      reject == pre /\ ~Matches(s0, r.rs)
      s1 == IF pre /\ ~reject
            THEN LET a == SetActive(s0, r.rs, r.es) IN IF r.tos = 1 THEN [a EXCEPT !.genQ = r.gen] ELSE [a EXCEPT !.genT = r.gen]
            ELSE s0
      silent == [st |-> s1, out |-> << >>]
  IN IF reject THEN [st |-> s0, out |-> << >>]
     ELSE IF r.tos = 0 THEN
       CASE r.op = OpDiscover -> LET h == IHello(s1, r) IN [st |-> h.st, out |-> << S(10) >> \o h.out]
         [] r.op = OpEmit -> IEmit(s1, r)
         [] r.op \in {OpProbe, OpTrain} -> IProbe(s1, r)
         [] r.op = OpQuery -> IQuery(s1, r)
         [] r.op = OpQueryLarge -> ILarge(s1, r)
         [] r.op = OpReset -> [st |-> IInit, out |-> << >>]
         [] OTHER -> silent
     ELSE IF r.tos = 1 THEN
       CASE r.op = OpDiscover -> IHello(s1, r)
         [] r.op = OpQueryLarge -> ILarge(s1, r)
         [] r.op = OpReset -> [st |-> [s1 EXCEPT !.known = FALSE, !.genQ = 0], out |-> << >>]
         [] OTHER -> silent
     ELSE silent

(* ------------------------------------------------------------ refinement *)
VARIABLES ist, ast, req, out
ivars == << ist, ast, req, out >>

ObsOfSee(see) == { [rs |-> see[i].rs, es |-> see[i].es, ed |-> see[i].ed] : i \in 1..Len(see) }
Agree(a, s) == /\ a.mapper.known = s.known
               /\ s.known => (a.mapper.real = s.real /\ s.app \in a.mapper.apps)
               /\ a.obs = ObsOfSee(s.see)
               /\ ~a.havoc

Stuck == [mapper |-> NoMapper, obs |-> {}, havoc |-> TRUE]

ImplInit == ist = IInit /\ ast = InitState /\ req = Rq(OpAck, 2, X, Own, X, Own, 0) /\ out = << >>

ImplNext ==
  \E r \in Reqs :
    LET res == IStep(ist, r)
        allowed == { nx \in NextStates(Cfg, ast, r, res.out, 0, 0) : Agree(nx, res.st) }
    IN /\ ist' = res.st /\ req' = r /\ out' = res.out
       /\ ast' = IF allowed = {} THEN Stuck ELSE CHOOSE nx \in allowed : TRUE

ImplSpec == ImplInit /\ [][ImplNext]_ivars

(* every step of the mechanism is an allowed step of the general specification *)
Refines == ast # Stuck
ImplView == << ist, ast >>

=============================================================================
