--------------------------- MODULE AutomataTrace ---------------------------
(***************************************************************************)
(* Trace validation of lltdAutomata.c: every call the driver makes into    *)
(* the real functions (and every send_hello callback they make) is one     *)
(* event; the step is allowed iff the recorded results are what            *)
(* Automata.tla allows.  Check selects the enforced properties:            *)
(*   C11 classifier, C12 Hello pacing, C13 RepeatBand, C14 mapping engine  *)
(*   and tick timeout, C15 session automaton, C16 session table,           *)
(*   C18 constructors under allocation failure.                            *)
(***************************************************************************)
EXTENDS Automata, Json, IOUtils, TLC, TLCExt

TP == INSTANCE TickPacing WITH s <- 0, lastSent <- 0    \* only its operators (TickStep) are used

CONSTANT Check
CONSTANT Primary
Chk(p) == p \in Check

Log == ndJsonDeserialize(IOEnv.TRACE)

VARIABLES l,
          tbl,        \* dictionary model of the session table (follows the recorded table unless C16 is checked)
          mdl,        \* the session table as the specification alone predicts it (never read from the record)
          mT, sT,     \* timeouts read from the automata at construction
          full,       \* last logged full state (before the current event)
          lastFrame,  \* << second the last frame of the frame path arrived, second its handling ended >> (-1: none / timer fired)
          lastHello,  \* virtual time of the last periodic Hello on this interface (-1: none)
          lastNi,     \* last (r, Ni) pair of a band event, for monotonicity
          lastIn      \* history: second of the last input to << mapping, session >> automaton (the monitor's own clock,
                      \* not the automaton's last_ts field: "left without input for longer than its timeout")
vars == << l, tbl, mdl, mT, sT, full, lastFrame, lastHello, lastNi, lastIn >>

NoFull == [ms |-> 0, live |-> {}, es |-> 0, hto |-> 0 - 1, bto |-> 0 - 1, lasttx |-> 0, ni |-> << 0, 45 >>, r |-> << 0, 0 >>, begun |-> 0, ctc |-> 0, cdl |-> 0 - 1,
           inact |-> 0, clamped |-> FALSE]

TraceInit ==
  /\ l = 1 /\ tbl = {} /\ mdl = {} /\ mT = << 0, 0, 0 >> /\ sT = << 0, 0, 0, 0 >>
  /\ full = NoFull /\ lastFrame = << 0 - 1, 0 - 1 >> /\ lastHello = 0 - 1 /\ lastNi = << >> /\ lastIn = << 0, 0, 0 >>

Ent(x) == [key |-> x[1], gen |-> x[2], complete |-> x[3] = 1, last |-> x[4]]
LiveSet(ev) == {Ent(ev.live[i]) : i \in 1..Len(ev.live)}
(* the driver logs mapper addresses 02:4B:00:00:hh:ll as the integer key hh*256+ll *)
SpecialMacs == << << 255, 255, 255, 255, 255, 255 >>, << 0, 0, 0, 0, 0, 0 >>, << 1, 0, 94, 0, 0, 1 >>, << 3, 75, 0, 0, 0, 1 >>,
                  << 51, 51, 0, 0, 0, 1 >>, << 2, 75, 1, 0, 0, 1 >>, << 2, 75, 0, 1, 0, 0 >>, << 254, 255, 255, 255, 255, 255 >> >>
KeyMac(k) == IF k < 65536 THEN << 2, 75, 0, 0, k \div 256, k % 256 >>
             ELSE IF k < 65536 + Len(SpecialMacs) THEN SpecialMacs[k - 65535] ELSE << k >>
SeqTable(ev) == {[key |-> KeyMac(ev.live[i][1]), gen |-> ev.live[i][2], seq |-> ev.live[i][5]] : i \in 1..Len(ev.live)}

(* C16 bookkeeping invariants on any logged table *)
TableConsistent(ev) ==
  LET L == LiveSet(ev) IN
  /\ Cardinality(L) = Len(ev.live)            \* no entry twice
  /\ Unique(L)
  /\ ev.count = Cardinality(L) /\ ev.count <= TableCap
  /\ (ev.empty = 1) <=> (L = {})
  /\ (ev.allc = 1) <=> AllComplete(L)

Unset == 0 - 1000000000
FullOf(ev) == [ms |-> ev.ms, live |-> LiveSet(ev), es |-> ev.es,
               hto |-> IF ev.hto = Unset THEN 0 - 1 ELSE ev.now + ev.hto,      \* absolute deadlines (ms), -1 = unset
               bto |-> IF ev.bto = Unset THEN 0 - 1 ELSE ev.now + ev.bto,
               lasttx |-> ev.lasttx, ni |-> ev.ni, r |-> ev.r, begun |-> ev.begun, ctc |-> ev.ctc,
               cdl |-> 0 - 1,       \* charge deadline (seconds): the monitor's own record, set by TGlue / TTick below
               inact |-> ev.inact,  \* the inactivity timer as the record holds it (seconds, 0 = not armed)
               clamped |-> (ev.hto # Unset /\ (ev.hto >= 999999999 \/ ev.hto <= 0 - 999999999))
                           \/ (ev.bto # Unset /\ (ev.bto >= 999999999 \/ ev.bto <= 0 - 999999999))]

(* relative-clock mapping onto the state of TickPacing *)
ClsHto(abs, now) == IF abs < 0 THEN "unset" ELSE IF abs <= now THEN "due" ELSE IF abs - now < 1000 THEN "soon" ELSE "late"
ClsBto(abs, now) == IF abs < 0 THEN "unset" ELSE IF abs <= now THEN "due" ELSE "pending"
ClsTx(last, now) == IF last = 0 THEN "never" ELSE IF now - last < 1000 THEN "lt" ELSE "ge"
ClsTbl(L) == IF L = {} THEN "empty" ELSE IF AllComplete(L) THEN "allc" ELSE "inc"
AbsOf(f, L, now) == [es |-> f.es, tbl |-> ClsTbl(L), hto |-> ClsHto(f.hto, now), bto |-> ClsBto(f.bto, now), tx |-> ClsTx(f.lasttx, now)]

(* refinement: a recorded tick of the real automata_tick is a TickPacing!TickStep under the mapping. *)
(* The table is swept (expiry, inactivity) before the enumeration block looks at it, so the table    *)
(* class of the pre-state is the one logged after the tick.                                          *)
TickRefines(ev) ==
  LET pre == AbsOf(full, LiveSet(ev), ev.now)
      post == AbsOf(FullOf(ev), LiveSet(ev), ev.now)
  IN /\ Len(ev.hellos) <= 1
     /\ \E r \in TP!TickStep(pre) : r.post = post /\ r.sent = (Len(ev.hellos) = 1)

TickExactOK(ev) ==
  (full.ni[1] = 0 /\ ~full.clamped) =>
    LET w == TickExact(full, ev.now)
        g == FullOf(ev)
        ok == /\ g.es = w.es /\ g.live = w.live /\ g.ctc = w.ctc /\ (Len(ev.hellos) = 1) = w.sent /\ Len(ev.hellos) <= 1
              /\ g.hto = w.hto /\ g.bto = w.bto /\ g.lasttx = w.lasttx /\ g.ni = w.ni /\ g.r = w.r /\ g.begun = w.begun
              /\ g.inact = w.inact
    IN IF ok THEN TRUE
       ELSE PrintT(<< "XTICK-DIFF", "now", ev.now, "pre", [full EXCEPT !.live = Cardinality(@)], "model", [w EXCEPT !.live = Cardinality(@)],
                      "real", [g EXCEPT !.live = Cardinality(@)], "hellos", Len(ev.hellos) >>) /\ FALSE

(* C12: periodic Hellos.  Every callback logged its virtual time, whether it ran inside the   *)
(* tick, and an independent scan of the real table.                                          *)
RECURSIVE HellosOK(_, _, _)
HellosOK(hs, i, last) ==
  IF i > Len(hs) THEN TRUE
  ELSE /\ hs[i].tick = 1                         \* only by the periodic tick
       /\ hs[i].inc >= 1                          \* only while a session is not yet complete (never when empty)
       /\ (last >= 0 => hs[i].t - last >= 1000)   \* never less than one second apart
       /\ HellosOK(hs, i + 1, hs[i].t)
LastHelloAfter(hs, last) == IF Len(hs) = 0 THEN last ELSE hs[Len(hs)].t

Skip == /\ Log[l].e \in {"mark", "end"} /\ l' = l + 1
        /\ UNCHANGED << tbl, mdl, mT, sT, full, lastFrame, lastHello, lastNi, lastIn >>

TNew ==
  LET ev == Log[l] IN
  /\ ev.e = "new"
  /\ Chk("C14") => MappingTimeoutsOK(ev.mT)
  /\ Chk("C15") => SessionTimeoutsOK(ev.sT)
  /\ Chk("C16") => TableConsistent(ev)
  /\ tbl' = LiveSet(ev) /\ mdl' = LiveSet(ev) /\ mT' = ev.mT /\ sT' = ev.sT /\ full' = FullOf(ev)
  /\ lastFrame' = << 0 - 1, 0 - 1 >> /\ lastHello' = 0 - 1 /\ lastNi' = << >>
  /\ lastIn' = << ev.now \div 1000, ev.now \div 1000, ev.now \div 1000 >>
  /\ l' = l + 1

(* elapsed time: when the driver forced the public state it also chose last_ts; otherwise the monitor's *)
(* own record of the last input counts (and the automaton's last_ts must agree with it)              *)
TMStep ==
  LET ev == Log[l]
      since == IF ev.forced = 1 THEN ev.l0 ELSE lastIn[1]
  IN /\ ev.e = "mstep"
     /\ Chk("C14") => (ev.s1 \in MappingStep(ev.s0, ev.in, ev.nows - since, mT)
                        \/ (ev.forced # 1 /\ ev.s1 \in MappingStep(ev.s0, ev.in, ev.nows - lastIn[3], mT)))
     /\ (Primary = "C14" => TLCSet(2, TLCGet(2) \cup {<< "step", ev.s0, ev.in, ev.nows - since >>}))
     /\ lastIn' = << ev.nows, lastIn[2], ev.nows >>
     /\ full' = [full EXCEPT !.ms = ev.s1]
     /\ l' = l + 1 /\ UNCHANGED << tbl, mdl, mT, sT, lastFrame, lastHello, lastNi >>

TSStep ==
  LET ev == Log[l]
      since == IF ev.forced = 1 THEN ev.l0 ELSE lastIn[2]
  IN /\ ev.e = "sstep"
     /\ Chk("C15") => (ev.in \in 0..7 => ev.s1 \in SessionStep(ev.s0, ev.in, ev.nows - since, sT))
     /\ (Primary = "C15" => TLCSet(2, TLCGet(2) \cup {<< ev.s0, ev.in, ev.nows - since >>}))
     /\ lastIn' = << lastIn[1], ev.nows, lastIn[3] >>
     /\ l' = l + 1 /\ UNCHANGED << tbl, mdl, mT, sT, full, lastFrame, lastHello, lastNi >>

TEStep ==
  /\ Log[l].e = "estep"
  /\ Chk("XENUM") => Log[l].s1 = EnumNext(Log[l].s0, Log[l].in)
  /\ (Primary = "XENUM" => TLCSet(2, TLCGet(2) \cup {<< Log[l].s0, Log[l].in >>}))
  /\ l' = l + 1 /\ UNCHANGED << tbl, mdl, mT, sT, full, lastFrame, lastHello, lastNi, lastIn >>

(* C16: strict comparison with the dictionary model *)
TTop ==
  LET ev == Log[l]
      hit == Find(tbl, ev.key, ev.gen)
      nt == CASE ev.op = "TADD" -> TAdd(tbl, ev.key, ev.gen, ev.nows, TableCap)
              [] ev.op = "TREM" -> TRemove(tbl, ev.key, ev.gen)
              [] ev.op = "TCLEAR" -> {}
              [] ev.op = "TCOMP" -> TComplete(tbl, ev.key, ev.gen)
              [] ev.op = "TTICK" -> TExpire(tbl, ev.nows)
              [] OTHER -> tbl
      retOK == CASE ev.op = "TADD" -> IF hit = {} /\ Cardinality(tbl) >= TableCap THEN ev.ret = << >>
                                      ELSE ev.ret # << >> /\ Ent(ev.ret) \in Find(nt, ev.key, ev.gen)
                 [] ev.op \in {"TFIND", "TCOMP"} -> IF hit = {} THEN ev.ret = << >> ELSE ev.ret # << >> /\ Ent(ev.ret) \in Find(nt, ev.key, ev.gen)
                 [] OTHER -> TRUE
  IN /\ ev.e = "top"
     /\ Chk("C16") => /\ TableConsistent(ev)
                      /\ LiveSet(ev) = nt
                      /\ retOK
     /\ (Primary = "C16" => TLCSet(2, TLCGet(2) \cup {<< ev.op, Cardinality(tbl), hit # {} >>}))
     /\ tbl' = (IF Chk("C16") THEN nt ELSE LiveSet(ev))
     /\ mdl' = (CASE ev.op = "TADD" -> TAdd(mdl, ev.key, ev.gen, ev.nows, TableCap)
                  [] ev.op = "TREM" -> TRemove(mdl, ev.key, ev.gen)
                  [] ev.op = "TCLEAR" -> {}
                  [] ev.op = "TCOMP" -> TComplete(mdl, ev.key, ev.gen)
                  [] ev.op = "TTICK" -> TExpire(mdl, ev.nows)
                  [] OTHER -> mdl)
     /\ full' = [full EXCEPT !.live = LiveSet(ev)]
     /\ l' = l + 1 /\ UNCHANGED << mT, sT, lastFrame, lastHello, lastNi, lastIn >>

(* the periodic tick (C14 inactivity rule, C12 pacing, C16 bookkeeping) *)
TTick ==
  LET ev == Log[l]
      nows == ev.now \div 1000
      had == lastFrame[1] >= 0
      \* "after 30 s without any frame the periodic tick ends the session, clears the charge counter and empties
      \* the session table" - whatever state the engine is in.  The timer a frame armed fires once: between 29 s
      \* and 30 s (sub-second rounding of the two clocks) the record's own timer field says whether it did.
      \* The property does not say which instant of a frame's handling "the frame" is: an implementation may arm the
      \* timer when the frame arrives (the pinned flow does) or when it has been handled (parseFrame may pause 10 ms
      \* in between). The two differ only when that pause crosses a second boundary; then either is accepted and the
      \* record's own timer field says which happened.
      mustEnd == had /\ nows - lastFrame[2] >= 30
      mustNot == had /\ nows - lastFrame[1] <= 29
      fired == had /\ (mustEnd \/ (~mustNot /\ ev.inact = 0))
      survivors == {e \in full.live : ~(nows > e.last + Expiry)}
      \* C13 at the level of the tick: when the block deadline has passed in Pausing the block ends, however
      \* late the tick is: the count follows the formula for the Hellos actually heard (a Hello sent in this
      \* very tick marks enumeration as begun first) and the next Hello respects the load formula
      pre == AbsOf(full, LiveSet(ev), ev.now)
      blockEnds == TP!EsAfter(pre) = 1 /\ pre.bto = "due"
      begunEff == full.begun = 1 \/ Len(ev.hellos) > 0
      wantNi == NiNext(full.ni[2], full.r[1], full.r[2], begunEff)
  IN /\ ev.e = "tick"
     /\ Chk("C13") => ((blockEnds /\ full.ni[1] = 0 /\ full.ni[2] >= ALPHA /\ full.ni[2] <= NMAX)
                         => (ev.ni = << 0, wantNi >> /\ ev.hto # Unset /\ ev.hto >= HelloIntervalMin(wantNi)))
     /\ (Primary = "C13" /\ blockEnds => TLCSet(2, TLCGet(2) \cup {<< "tick", full.r, full.ni, begunEff, 0 >>}))
     /\ Chk("C14") => /\ mustEnd => (ev.ms = 0 /\ ev.ctc = 0 /\ ev.live = << >>)
                      /\ mustNot => (ev.ms = full.ms /\ survivors \subseteq LiveSet(ev))
     /\ Chk("C16") => TableConsistent(ev) /\ (~mustEnd /\ mustNot => LiveSet(ev) = survivors)
     \* a Hello is justified by a SESSION (mapper, generation) that is not complete: a duplicate entry of a
     \* session does not count
     /\ Chk("C12") => /\ HellosOK(ev.hellos, 1, lastHello) /\ TickRefines(ev)
                      /\ Len(ev.hellos) > 0 => (Unique(LiveSet(ev)) /\ Cardinality(LiveSet(ev)) = Len(ev.live))
                      \* ... and stop with the session: the table is swept before the enumeration block looks at it, so a
                      \* tick that has to end the mapping session (30 s without a frame) sends nothing, and a Hello needs
                      \* a session that is neither complete nor past its 60 s (by the monitor's own record of the table)
                      /\ Len(ev.hellos) > 0 => (~mustEnd /\ \E e \in survivors : ~e.complete)
                      \* ... and by the specification's own table: sessions that the rules say are gone (30 s without a
                      \* frame, 60 s without a refresh, Reset, removal) justify nothing, whatever the record still holds
                      /\ Len(ev.hellos) > 0 => \E e \in (IF fired THEN {} ELSE TExpire(mdl, nows)) : ~e.complete
     /\ Chk("XTICK") => TickExactOK(ev)
     /\ (Primary = "XTICK" => TLCSet(2, TLCGet(2) \cup {l}))
     /\ (Primary = "C14" /\ had /\ full.ms # 0 => TLCSet(2, TLCGet(2) \cup {<< "tick", mustEnd, mustNot >>}))
     /\ (Primary = "C12" /\ Len(ev.hellos) > 0 => TLCSet(2, TLCGet(2) \cup {l}))
     /\ lastHello' = LastHelloAfter(ev.hellos, lastHello)
     /\ Chk("XGLUE") => ev.ctc = CtcAfterTick(full.ctc, full, nows, fired)
     /\ full' = [FullOf(ev) EXCEPT !.cdl = CdlAfterTick(full, nows, fired)] /\ tbl' = LiveSet(ev)
     /\ mdl' = (IF fired THEN {} ELSE TExpire(mdl, nows))
     /\ lastIn' = (IF ev.ms # full.ms THEN << nows, lastIn[2], nows >> ELSE lastIn)
     /\ lastFrame' = (IF fired THEN << 0 - 1, 0 - 1 >> ELSE lastFrame)
     /\ l' = l + 1 /\ UNCHANGED << mT, sT, lastNi >>

(* ------------------------------------------------------------ the documented frame-processing flow   *)
(* (Documentation/automata_runtime.md, os/darwin/daemon/darwin-main.c; beyond the listed properties,   *)
(* Check id "XGLUE"): what a frame does to the session table and to RepeatBand before the tick runs.    *)
(* The session event the flow derived is read back from the entry it stamped (6th logged field).       *)
KeyOf(rs) == IF rs[1] = 2 /\ rs[2] = 75 /\ rs[3] = 0 /\ rs[4] = 0 THEN rs[5] * 256 + rs[6] ELSE 0 - 1
GlueTable(t, ev, nows) ==
  LET k == KeyOf(ev.rs)
      stamped == {ev.live[i][6] : i \in {j \in 1..Len(ev.live) : ev.live[j][1] = k /\ ev.live[j][2] = ev.gen}}
      acking == stamped \cap {SessAcking, SessAckingChg} # {}
      t1 == CASE ev.op = OpDiscover -> (IF acking THEN TComplete(TAdd(t, k, ev.gen, nows, TableCap), k, ev.gen) ELSE TAdd(t, k, ev.gen, nows, TableCap))
              [] ev.op = OpReset -> {}
              [] OTHER -> t
      t2 == IF full.ms # 0 /\ ev.ms = 0 THEN {} ELSE t1        \* the mapping session ended: table cleared
  IN TExpire(t2, nows)                                         \* the tick that closes the flow sweeps stale sessions

GlueRefines(ev) ==
  LET nows == ev.now \div 1000
      nows0 == ev.now0 \div 1000            \* the table is updated before the reply pause of parseFrame
      want == TExpire(GlueTable(full.live, ev, nows0), nows)
      \* RepeatBand before the closing tick: a Discover (re)starts / continues enumeration
      pre0 == IF ev.op = OpDiscover
              THEN (IF full.es = 0 THEN [full EXCEPT !.es = 1, !.hto = ev.now0 + 120, !.bto = ev.now0 + 300] ELSE [full EXCEPT !.es = 1])
              ELSE full
      pre == AbsOf(pre0, LiveSet(ev), ev.now)
      post == AbsOf(FullOf(ev), LiveSet(ev), ev.now)
  IN /\ KeyOf(ev.rs) >= 0 => LiveSet(ev) = want
     /\ Len(ev.hellos) <= 1
     /\ \E r \in TP!TickStep(pre) : r.post = post /\ r.sent = (Len(ev.hellos) = 1)

(* XTICK for a frame: the state the frame flow hands to its closing tick, exactly - table update (GlueTable     *)
(* before the sweep), inactivity timer re-armed at the frame's second + 30, charge counter, RepeatBand (a Hello   *)
(* heard counts, and marks enumeration begun from the tenth on; a Discover starts enumeration from the initial    *)
(* count with the first Hello one load interval away and the first block 300 ms long, or marks a running one as   *)
(* begun) - then TickExact at the time parseFrame returns.                                                        *)
GlueExactOK(ev) ==
  (KeyOf(ev.rs) >= 0 /\ full.ni[1] = 0 /\ ~full.clamped) =>
    LET nows0 == ev.now0 \div 1000
        k == KeyOf(ev.rs)
        stamped == {ev.live[i][6] : i \in {j \in 1..Len(ev.live) : ev.live[j][1] = k /\ ev.live[j][2] = ev.gen}}
        acking == stamped \cap {SessAcking, SessAckingChg} # {}
        pre == FrameExact(full, ev.op, k, ev.gen, acking, full.ms # 0 /\ ev.ms = 0, ev.now0)
        w == TickExact(pre, ev.now)
        g == FullOf(ev)
        ok == /\ g.es = w.es /\ g.live = w.live /\ g.ctc = w.ctc /\ (Len(ev.hellos) = 1) = w.sent /\ Len(ev.hellos) <= 1
              /\ g.hto = w.hto /\ g.bto = w.bto /\ g.lasttx = w.lasttx /\ g.ni = w.ni /\ g.r = w.r /\ g.begun = w.begun
              /\ g.inact = w.inact
    IN IF ok THEN TRUE
       ELSE PrintT(<< "XTICK-DIFF", "glue op", ev.op, "now0", ev.now0, "now", ev.now, "pre", [pre EXCEPT !.live = Cardinality(@)],
                      "model", [w EXCEPT !.live = Cardinality(@)], "real", [g EXCEPT !.live = Cardinality(@)], "hellos", Len(ev.hellos) >>) /\ FALSE

(* the specification's own table after a frame (a Discover from an address outside the key space resynchronises *)
(* it with the record: the model has no name for that session)                                                  *)
MdlAfterGlue(ev) ==
  IF ev.op = OpDiscover /\ KeyOf(ev.rs) < 0 THEN LiveSet(ev)
  ELSE TExpire(GlueTable(mdl, ev, ev.now0 \div 1000), ev.now \div 1000)

(* a frame through the Darwin frame path (classifier, table update, automata, parseFrame, tick) *)
TGlue ==
  LET ev == Log[l] IN
  /\ ev.e = "glue"
  /\ Chk("XGLUE") => GlueRefines(ev)
  /\ Chk("XTICK") => GlueExactOK(ev)
  \* a Hello heard through the frame path counts once (unless the closing tick just ended the block)
  /\ Chk("C13") => ((ev.op = OpHello /\ full.r[1] = 0 /\ full.r[2] < 65535 /\ full.es = 1)
                      => ev.r \in {<< 0, full.r[2] + 1 >>, << 0, 0 >>})
  \* r counts the Hellos heard IN A BLOCK: when a Discover (re)starts enumeration from idle the first block has
  \* just begun and nothing has been heard in it, whatever was overheard while idle
  /\ Chk("C13") => ((ev.op = OpDiscover /\ full.es = 0 /\ ev.es # 0) => ev.r = << 0, 0 >>)
  \* the frame path feeds the opcode to the mapping engine; leaving an active state empties the table
  \* (the pinned flow steps the engine when the frame ARRIVES, before parseFrame may let time pass; stepping it after
  \* the frame has been handled is as good an implementation: the elapsed time may be measured between either
  \* instant of this frame and either instant of the previous one - they differ only across a second boundary)
  /\ Chk("C14") => /\ \E e \in {ev.now0 \div 1000 - lastIn[1], ev.now0 \div 1000 - lastIn[3],
                                  ev.now \div 1000 - lastIn[1], ev.now \div 1000 - lastIn[3]} :
                          ev.ms \in MappingStep(full.ms, ev.op, e, mT)
                   /\ (full.ms # 0 /\ ev.ms = 0) => ev.live = << >>
  /\ (Primary = "C14" => TLCSet(2, TLCGet(2) \cup {<< "glue", full.ms, ev.op, ev.now0 \div 1000 - lastIn[1] >>}))
  /\ Chk("C16") => TableConsistent(ev)
  /\ Chk("C12") => HellosOK(ev.hellos, 1, lastHello)
  /\ Chk("C12") => (Len(ev.hellos) > 0 => \E e \in MdlAfterGlue(ev) : ~e.complete)
  /\ (Primary = "C12" /\ Len(ev.hellos) > 0 => TLCSet(2, TLCGet(2) \cup {l}))
  /\ lastHello' = LastHelloAfter(ev.hellos, lastHello)
  /\ mdl' = MdlAfterGlue(ev)
  /\ lastFrame' = << ev.now0 \div 1000, ev.now \div 1000 >>      \* arrival / end of handling (the reply pause of parseFrame lies between)
  /\ LET charged == [full EXCEPT !.ctc = IF ev.op = OpCharge THEN (full.ctc + 1) % 256 ELSE full.ctc,
                                  !.cdl = IF ev.op = OpCharge THEN ev.now0 \div 1000 + 1 ELSE full.cdl]
     IN /\ Chk("XGLUE") => ev.ctc = CtcAfterTick(charged.ctc, charged, ev.now \div 1000, FALSE)
        /\ full' = [FullOf(ev) EXCEPT !.cdl = CdlAfterTick(charged, ev.now \div 1000, FALSE)]
  /\ tbl' = LiveSet(ev)
  /\ lastIn' = << ev.now0 \div 1000, ev.now0 \div 1000, ev.now \div 1000 >>
  /\ l' = l + 1 /\ UNCHANGED << mT, sT, lastNi >>

THeard ==
  LET ev == Log[l] IN
  /\ ev.e = "heard"
  /\ Chk("C12") => ev.hellos = << >>
  \* C13: r is the number of Hellos heard - every one of them counts
  /\ Chk("C13") => IF ev.n = 0 /\ full.es = 0 /\ ev.es # 0 THEN ev.r = << 0, 0 >>       \* enumeration (re)started through the API
                    ELSE ((full.r[1] = 0 /\ full.r[2] + ev.n < 65536) => ev.r = << 0, full.r[2] + ev.n >>)
  /\ (Primary = "C13" => TLCSet(2, TLCGet(2) \cup {<< "heard", full.r, ev.n >>}))
  /\ full' = [FullOf(ev) EXCEPT !.cdl = full.cdl] /\ tbl' = LiveSet(ev) /\ mdl' = mdl
  /\ l' = l + 1 /\ UNCHANGED << mT, sT, lastFrame, lastHello, lastNi, lastIn >>

(* the embedded entry point (os/esp32, os/linux embedded; beyond the listed properties, Check id "XEMB"): *)
(* frames shorter than the demultiplex header are dropped; otherwise the RAW OPCODE is fed to the three  *)
(* automata - mapping as in C14, session with the opcode in the place of a session event (the legacy     *)
(* Reset edge from Complete is keyed on opcode 8), enumeration: Hello / new session / "complete".         *)
SessRaw(s, op) == IF op = OpReset /\ s = Complete THEN Nascent ELSE IF op \in 0..7 THEN SessNext(s, op) ELSE s
TEsp ==
  LET ev == Log[l]
      sraw == IF sT[ev.s0 + 1] # 0 /\ ev.nows - ev.sl0 > sT[ev.s0 + 1] THEN {Nascent, SessRaw(Nascent, ev.op)} ELSE {SessRaw(ev.s0, ev.op)}
  IN /\ ev.e = "esp"
     /\ Chk("XEMB") => IF ev.len < 32 THEN ev.m1 = ev.m0 /\ ev.s1 = ev.s0 /\ ev.e1 = ev.e0
                        ELSE /\ ev.m1 \in MappingStep(ev.m0, ev.op, ev.nows - ev.ml0, mT)
                             /\ ev.s1 \in sraw
                             /\ ev.e1 = EnumNext(ev.e0, IF ev.op = OpHello THEN EnumHello ELSE IF ev.op = OpDiscover THEN EnumNewSession ELSE EnumComplete)
     /\ (Primary = "XEMB" => TLCSet(2, TLCGet(2) \cup {<< ev.m0, ev.s0, ev.e0, ev.op >>}))
     /\ l' = l + 1 /\ UNCHANGED << tbl, mdl, mT, sT, full, lastFrame, lastHello, lastNi, lastIn >>

TClassify ==
  LET ev == Log[l] IN
  /\ ev.e = "classify"
  /\ Chk("C11") => ev.ev \in Classify(ev.b, ev.fill, ev.len, SeqTable(ev), ev.own)
  /\ (Primary = "C11" => TLCSet(2, TLCGet(2) \cup {<< At(ev.b, ev.fill, 18), ev.ev, W16(ev.b, ev.fill, 35) >>}))
  /\ l' = l + 1 /\ UNCHANGED << tbl, mdl, mT, sT, full, lastFrame, lastHello, lastNi, lastIn >>

(* C13: one end of block *)
TBand ==
  LET ev == Log[l]
      want == NiNext(ev.prev[2], ev.r[1], ev.r[2], ev.begun = 1)
      mono == IF lastNi = << >> THEN TRUE
              ELSE IF lastNi[1] # ev.prev \/ lastNi[2] # ev.begun THEN TRUE
              ELSE IF (lastNi[3][1] < ev.r[1]) \/ (lastNi[3][1] = ev.r[1] /\ lastNi[3][2] <= ev.r[2])
                   THEN lastNi[4] <= ev.interval ELSE TRUE
  IN /\ ev.e = "band"
     /\ Chk("C13") => /\ ev.prev[1] = 0 /\ ev.prev[2] >= ALPHA /\ ev.prev[2] <= NMAX     \* driver keeps prior counts in range
                      /\ ev.ni = << 0, want >>
                      /\ want >= ALPHA /\ want <= NMAX
                      /\ ev.interval >= HelloIntervalMin(want)
                      /\ mono          \* same prior count: hearing more never shortens the next interval
     /\ (Primary = "C13" => TLCSet(2, TLCGet(2) \cup {<< "band", ev.prev, ev.r, ev.begun >>}))
     /\ lastNi' = << ev.prev, ev.begun, ev.r, ev.interval >>
     /\ l' = l + 1 /\ UNCHANGED << tbl, mdl, mT, sT, full, lastFrame, lastHello, lastIn >>

(* C18: constructors with the k-th allocation failing *)
TCtor ==
  LET ev == Log[l] IN
  /\ ev.e = "ctor"
  /\ Chk("C18") => /\ ev.null = 1 \/ ev.usable = 1       \* failure reported, or a usable object
                   /\ ev.null = 1 => ev.live = 0          \* nothing leaked on the failure path
  /\ (Primary = "C18" => TLCSet(2, TLCGet(2) \cup {<< ev.which, ev.k, ev.null >>}))
  /\ l' = l + 1 /\ UNCHANGED << tbl, mdl, mT, sT, full, lastFrame, lastHello, lastNi, lastIn >>

TraceNext == l <= Len(Log) /\ (Skip \/ TNew \/ TMStep \/ TSStep \/ TEStep \/ TTop \/ TTick \/ TGlue \/ THeard \/ TClassify \/ TBand \/ TCtor \/ TEsp)
TraceSpec == TraceInit /\ [][TraceNext]_vars

ASSUME TLCSet(1, 0) /\ TLCSet(2, {})
Progress == TLCSet(1, Max(TLCGet(1), l))
Accepted ==
  IF TLCGet(1) = Len(Log) + 1
  THEN PrintT(<< "ACCEPTED", Len(Log), "EXERCISED", Cardinality(TLCGet(2)) >>)
  ELSE /\ PrintT(<< "REJECTED_AT", TLCGet(1), "LN", Log[TLCGet(1)].ln, "EXERCISED", Cardinality(TLCGet(2)) >>)
       /\ FALSE
=============================================================================
