"""Scenario generators for the automata driver (harness/run_automata.c)."""
import random

from framegen import *
from vlib import Scenario

OWN = mac(0x02AA00000001)
BR_MAC = mac(0x02DD000000D4)


def key_mac(k):
    return bytes([0x02, 0x4B, 0, 0, (k >> 8) & 0xFF, k & 0xFF])


# --------------------------------------------------------------------------- C14
def campaign_c14(seed, tier):
    rng = random.Random(seed)
    scs = []
    T = {0: 0, 1: 5, 2: 30}   # only steers the choice of elapsed classes; the monitor reads the real timeouts
    for s in (0, 1, 2):
        t = T[s]
        classes = [0, 1, 100] if t == 0 else [0, t - 1, t, t + 1, 10 * t]
        classes += [32767, 32768, 65535, 65536, 65537, 100000, 1000000]     # representation boundaries of the elapsed time
        for el in classes:
            lines = ["NEW", "ADV 1500000000"]
            now_s = 1500001
            for inp in range(-128, 256):
                lines.append("MSTEP %d %d %d" % (inp, s, now_s - el))
            scs.append(Scenario("c14-step-s%d-e%d" % (s, el), lines))
    # histories: event / time sequences on the public API
    for i in range(8 if tier == "quick" else 200):
        lines = ["NEW"]
        for _ in range(150):
            x = rng.random()
            if x < 0.3:
                lines.append("ADV %d" % rng.choice([0, 1, 999, 1000, 4000, 5000, 6000, 29000, 30000, 31000, 60000, 32768000, 65537000]))
            else:
                lines.append("MSTEP %d" % rng.choice([0, 0, 2, 2, -3, 8, -1, 6, 11, 4, 9, rng.randrange(-128, 256)]))
        scs.append(Scenario("c14-hist-%d" % i, lines))
    # the 30 s inactivity rule at several clock origins (a monotonic clock may start at 0)
    for ci, clock in enumerate([0, 1, 700, 999, 1000, 5000, 59000, 4000000000]):
        for first in ("discover", "discover+emit"):
            for small in (0, 300, 900):
                lines = ["CLOCK %d" % clock, "NEW"]
                f = discover(0, key_mac(1), gen=1, seq=1, stations=[key_mac(9)])
                lines.append("GLUE %d 0 %s" % (len(f), f.hex()))
                if first != "discover":
                    e = emit(key_mac(1), OWN, [(1, 0, OWN, key_mac(30))], seq=6)
                    lines.append("GLUE %d 0 %s" % (len(e), e.hex()))
                # ticks just before, exactly at (the very second the 30 s are over) and after the deadline
                lines += ["ADV %d" % small, "TICK", "ADV 28000", "TICK", "ADV %d" % (2000 - small), "TICK", "ADV 1100", "TICK", "ADV 1000", "TICK"]
                lines.append("GLUE %d 0 %s" % (len(f), f.hex()))
                lines += ["ADV 31000", "TICK", "TICK"]
                scs.append(Scenario("c14-inactive-%d-%s-%d" % (ci, first.replace("+", ""), small), lines))
    # tick-driven timeout through the frame path
    for i in range(12 if tier == "quick" else 300):
        scs.append(sc_schedule("c14-tick-%d" % i, rng.randrange(1 << 30), 80, long_gaps=True))
    scs += boundary_family("c14", tier)
    for i in range(6 if tier == "quick" else 100):
        scs.append(sc_idle_engine("c14-idle-%d" % i, rng.randrange(1 << 30)))
    for i in range(1 if tier == "quick" else 10):
        scs.append(sc_wear("c14-wear-%d" % i, rng.randrange(1 << 30), "mapping"))
    return scs


# --------------------------------------------------------------------------- C15
def campaign_c15(seed, tier):
    rng = random.Random(seed)
    scs = []
    for s in (0, 1, 2, 3):
        for el in (0, 1, 2, 10, 32767, 32768, 65535, 65536, 65537, 100000, 1000000):
            lines = ["NEW", "ADV 1500000000"]
            now_s = 1500001
            for ev in list(range(0, 8)) + [8, 9, 11, -1, -2, 255, 100]:
                lines.append("SSTEP %d %d %d" % (ev, s, now_s - el))
            scs.append(Scenario("c15-step-s%d-e%d" % (s, el), lines))
    for i in range(8 if tier == "quick" else 1500):
        lines = ["NEW"]
        for _ in range(200):
            if rng.random() < 0.25:
                lines.append("ADV %d" % rng.choice([0, 500, 999, 1000, 1001, 2000, 2001, 5000, 32767000, 32768000, 65536000, 86400000]))
            else:
                lines.append("SSTEP %d" % rng.randrange(0, 8))
        scs.append(Scenario("c15-hist-%d" % i, lines))
    for i in range(2 if tier == "quick" else 20):
        scs.append(sc_wear("c15-wear-%d" % i, rng.randrange(1 << 30), "session"))
    return scs


# --------------------------------------------------------------------------- C16
def campaign_c16(seed, tier):
    rng = random.Random(seed)
    scs = []
    for i in range(24 if tier == "quick" else 3000):
        nkeys = rng.choice([3, 17, 24, 24])
        keys = [(rng.randrange(1, nkeys + 1), rng.choice([1, 1, 2])) for _ in range(40)]
        if i % 3 == 2:
            # session keys are whatever the real-source field held: broadcast, zero, group addresses, look-alikes,
            # generations at the ends of their range
            keys += [(65536 + rng.randrange(8), rng.choice([0, 1, 0xFFFF])) for _ in range(14)] + [(0, 0), (1, 0), (1, 0xFFFF), (0xFFFF, 1)]
        lines = ["NEW"]
        for _ in range(200):
            x = rng.random()
            k, g = rng.choice(keys)
            if x < 0.40:
                lines.append("TADD %d %d %d" % (k, g, rng.randrange(1, 5)))
            elif x < 0.50:
                lines.append("TFIND %d %d" % (k, g))
            elif x < 0.62:
                lines.append("TREM %d %d" % (k, g))
            elif x < 0.72:
                lines.append("TCOMP %d %d" % (k, g))
            elif x < 0.735 and nkeys > 16:
                lines += ["TCOMP %d %d" % kk for kk in keys]      # everything recorded so far completes
            elif x < 0.75:
                lines.append("TCLEAR")
            elif x < 0.87:
                lines.append("TTICK")
            else:
                lines.append("ADV %d" % rng.choice([0, 1000, 30000, 59000, 60000, 61000, 200000, rng.randrange(0, 200001)]))
        scs.append(Scenario("c16-seq-%d" % i, lines))
    # expiry boundary: idle exactly 60 s survives, 61 s is removed, fresher ones survive
    lines = ["NEW", "ADV 9000", "TADD 1 1 1", "ADV 30000", "TADD 2 1 1", "ADV 30000", "TTICK", "ADV 1000", "TTICK", "ADV 29000", "TTICK", "ADV 1000", "TTICK"]
    scs.append(Scenario("c16-expiry-boundary", lines))
    # full table
    lines = ["NEW"] + ["TADD %d 1 1" % k for k in range(1, 19)] + ["TADD 3 1 9", "TREM 5 1", "TADD 40 1 1", "TADD 41 1 1", "TCOMP 40 1", "TTICK"]
    scs.append(Scenario("c16-full", lines))
    # full table of COMPLETE sessions: a refused add, a refresh, a removal and a re-add leave the summary flags right
    for variant in range(4 if tier == "quick" else 40):
        order = list(range(1, 17))
        rng.shuffle(order)
        lines = ["NEW"] + ["TADD %d 1 1" % k for k in order]
        for k in order[:16 if variant % 2 == 0 else 15]:
            lines.append("TCOMP %d 1" % k)
        lines += ["TADD 40 1 1", "TFIND 40 1", "TADD %d 1 7" % order[3], "TADD 41 2 1", "TCOMP %d 1" % order[-1], "TADD 42 1 1",
                  "TREM %d 1" % order[0], "TADD 43 1 1", "TADD 44 1 1", "TCOMP 43 1", "TADD 45 1 1", "TTICK", "ADV 61000", "TADD 46 1 1", "TTICK", "TADD 47 1 1"]
        scs.append(Scenario("c16-full-complete-%d" % variant, lines))
    for i in range(8 if tier == "quick" else 100):
        scs.append(sc_schedule("c16-sched-%d" % i, rng.randrange(1 << 30), 80))
    return scs


# --------------------------------------------------------------------------- C11
def sc_c11(name, seed, counts, tier):
    rng = random.Random(seed)
    lines = ["NEW"]
    m = key_mac(1)
    tables = [[], ["TADD 1 7 9"], ["TADD 1 7 4"], ["TADD 1 8 9"], ["TADD 2 7 4"],
              ["TADD %d 1 1" % k for k in range(10, 26)], ["TADD %d 1 1" % k for k in range(10, 25)] + ["TADD 1 7 3"],
              # sparse tables: the mapper's session sits behind free slots (earlier sessions removed / expired)
              ["TADD 5 1 1", "TADD 6 1 1", "TADD 1 7 4", "TREM 5 1", "TREM 6 1"],
              ["TADD 5 1 1", "ADV 30000", "TADD 1 7 3", "ADV 40000", "TTICK"]]
    for ti, tb in enumerate(tables):
        lines.append("TCLEAR")
        lines += tb
        for k in counts:
            others = [bytes([0x02, 0x77, ti, k & 0xFF, i >> 8, i & 0xFF]) for i in range(k)]
            positions = [None] if k == 0 else sorted(set([None, 0, k - 1, k // 2, rng.randrange(k)]),
                                                      key=lambda x: -1 if x is None else x)
            if tier == "thorough" and k <= 24:
                positions = [None] + list(range(k))
            for pos in positions:
                st = list(others)
                if pos is not None:
                    st[pos] = OWN
                f = discover(rng.choice([0, 1]), m, gen=7, seq=9, stations=st)
                lines.append("CLASSIFY %d %d %s" % (len(f), rng.choice([0, 0xFF]), f.hex()))
            # count field larger than what the frame holds (own address lies beyond the frame: in the fill)
            if k > 0:
                f = discover(0, m, gen=7, seq=9, stations=others, count=rng.choice([k + 1, 0xFFFF, 241]))
                lines.append("CLASSIFY %d %d %s" % (len(f), 0, f.hex()))
                f2 = discover(0, m, gen=7, seq=9, stations=others[:-1] + [OWN], count=k)
                lines.append("CLASSIFY %d %d %s" % (len(f2) - 6, 0, f2.hex()))      # own address received? no: cut off
    lines.append("TCLEAR")
    lines.append("TADD 1 7 9")
    for op in range(256):
        # Ethernet and real destination chosen independently (relayed frames: they differ)
        ed, rd = rng.choice([BCAST, OWN]), rng.choice([BCAST, OWN])
        f = header(rng.choice([0, 1, 2]), op, ed, m, rd, m, 9) + struct.pack(">HH", 7, 1) + OWN
        lines.append("CLASSIFY %d 0 %s" % (len(f), f.hex()))
    for ed in (BCAST, OWN, key_mac(9)):
        for rd in (BCAST, OWN, key_mac(9), bytes([0xFF] * 5 + [0xFE])):
            for tos in (0, 1):
                f = header(tos, OP_RESET, ed, rng.choice([m, BR_MAC]), rd, m, 0)
                lines.append("CLASSIFY %d 0 %s" % (len(f), f.hex()))
                f = header(tos, OP_HELLO, ed, m, rd, m, 0) + bytes(14)
                lines.append("CLASSIFY %d 0 %s" % (len(f), f.hex()))
    # look-alike addresses: differing from the own / the mapper's / the broadcast address in one byte, or in
    # two bytes by the same bit pattern (differences that cancel under XOR or a byte sum)
    def flip2(a, i, j, mask):
        b = bytearray(a)
        b[i] ^= mask
        b[j] ^= mask
        return bytes(b)
    lines.append("TCLEAR")
    lines.append("TADD 1 7 4")
    alikes = [flip2(OWN, i, j, mk) for i in range(6) for j in range(i + 1, 6) for mk in (0x01, 0xFF)] + \
             [bytes(OWN[:i]) + bytes([OWN[i] ^ 0x10]) + bytes(OWN[i + 1:]) for i in range(6)]
    for a in alikes:
        f = discover(0, m, gen=7, seq=9, stations=[key_mac(9), a, key_mac(8)])
        lines.append("CLASSIFY %d 0 %s" % (len(f), f.hex()))
    for a in [flip2(m, i, j, 0x10) for i in range(6) for j in range(i + 1, 6)][:10]:
        f = discover(0, a, gen=7, seq=9, stations=[OWN])        # a look-alike mapper has no session: not "changed"
        lines.append("CLASSIFY %d 0 %s" % (len(f), f.hex()))
    for a in [flip2(BCAST, i, j, 0xFF) for i in range(6) for j in range(i + 1, 6)] + [flip2(BCAST, 0, 0, 0)]:
        f = header(0, OP_RESET, BCAST, m, a, m, 0)
        lines.append("CLASSIFY %d 0 %s" % (len(f), f.hex()))
    for ln in (0, 14, 31, 32, 33, 34, 35, 36, 37, 41, 42, 47, 48):
        f = discover(0, m, gen=7, seq=9, stations=[OWN, key_mac(9)])
        for fill in (0, 0xFF, 1):      # what the rest of the receive buffer happens to hold
            lines.append("CLASSIFY %d %d %s" % (ln, fill, f[:ln].hex() or "-"))
    # classification after table histories: the receive loops classify a Discover and then record it, so the
    # entry a Discover is compared with has a past (earlier transactions, generations, removals, expiry)
    lines.append("TCLEAR")
    for _ in range(160 if tier == "quick" else 600):
        k, g, sq = rng.choice([1, 1, 2]), rng.choice([7, 7, 8]), rng.choice([3, 4, 4, 9, 0])
        x = rng.random()
        if x < 0.08:
            lines.append("TREM %d %d" % (k, g))
        elif x < 0.14:
            lines.append("ADV %d" % rng.choice([1000, 29000, 31000, 61000]))
            lines.append("TTICK")
        elif x < 0.17:
            lines.append("TCOMP %d %d" % (k, g))
        else:
            f = discover(rng.choice([0, 1]), key_mac(k), gen=g, seq=sq, stations=[OWN] if rng.random() < 0.5 else [key_mac(9)])
            lines.append("CLASSIFY %d 0 %s" % (len(f), f.hex()))
            if rng.random() < 0.8:
                lines.append("TADD %d %d %d" % (k, g, sq))
    return Scenario(name, lines)


def campaign_c11(seed, tier):
    rng = random.Random(seed)
    allc = list(range(0, 241))
    scs = []
    if tier == "quick":
        for i in range(16):
            counts = sorted(set([0, 1, 2, 3] + allc[i::16]))
            scs.append(sc_c11("c11-%d" % i, rng.randrange(1 << 30), counts, tier))
    else:
        for i in range(64):
            scs.append(sc_c11("c11-%d" % i, rng.randrange(1 << 30), sorted(set([0, 1, 2] + allc[i::16])), tier))
    return scs


# --------------------------------------------------------------------------- C13
def campaign_c13(seed, tier):
    rng = random.Random(seed)
    rs = set(range(0, 301))
    for k in range(1, 33):
        for d in (-1, 0, 1):
            v = (1 << k) + d
            if 0 <= v < (1 << 32):
                rs.add(v)
    rs |= {9769, 9770, 65535, 65536, 65537, 0xFFFFFFFF, 0xFFFFFFFE, 46340, 46341, 92681, 92682}
    rs |= {j * 65536 + d for j in range(1, 40) for d in (0, 1, 14, 15)}
    rs |= {rng.randrange(1 << 32) for _ in range(300 if tier == "quick" else 20000)}
    rs = sorted(rs)
    prevs = [45, 46, 180, 405, 9999, 10000]
    scs = []
    chunks = 16 if tier == "quick" else 64
    for c in range(chunks):
        lines = ["CLOCK %d" % [1000, 0, 4294967296 - 200, 4294967296 + 5000, 34560000000, 2147483648][c % 6], "NEW"]
        for prev in prevs:
            for begun in (1, 0):
                for r in rs[c::chunks]:     # ascending r per (prev, begun): monotonicity is checked along the way
                    lines.append("BAND %d %d %d %d" % (prev, r >> 16, r & 0xFFFF, begun))
        scs.append(Scenario("c13-%d" % c, lines))
    # the formula at the level of the tick: blocks closed by on-time and by late ticks
    for i in range(24 if tier == "quick" else 600):
        scs.append(sc_band_ticks("c13-tick-%d" % i, rng.randrange(1 << 30)))
    return scs


def sc_band_ticks(name, seed):
    rng = random.Random(seed)
    lines = ["CLOCK %d" % rng.choice([1000, 0, 4294960000, 4294967296 - 200, 4294967296 + 5000, 34560000000]), "NEW"]
    f = discover(0, key_mac(1), gen=1, seq=1, stations=[key_mac(9)])     # a session that is never acknowledged
    lines.append("GLUE %d 0 %s" % (len(f), f.hex()))
    for _ in range(60):
        x = rng.random()
        if x < 0.45:
            lines.append("HEARD %d" % rng.choice([1, 1, 2, 3, 5, 9, 10, 14, 15, 16, 20, 40]))
        elif x < 0.55:
            h = hello(0, key_mac(20 + rng.randrange(5)), 1, key_mac(1), key_mac(1))
            lines.append("GLUE %d 0 %s" % (len(h), h.hex()))
        elif x < 0.62:
            lines.append("GLUE %d 0 %s" % (len(f), f.hex()))      # refresh the session
        lines.append("ADV %d" % rng.choice([10, 100, 100, 200, 299, 300, 301, 599, 600, 601, 900, 1000, 1300, 3000, 10000]))
        lines.append("TICK")
    return Scenario(name, lines)


# --------------------------------------------------------------------------- C12 (and tick schedules)
def sc_inactivity_boundary(name, origin, gap):
    """the 30 s rule at the second boundary: the frame arrives in the last milliseconds of a second, the reply pause
    of parseFrame carries the clock into the next one, and the tick comes `gap' ms after the frame"""
    lines = ["CLOCK %d" % origin, "NEW"]
    f = discover(0, key_mac(1), gen=1, seq=1, stations=[key_mac(9)])
    lines.append("GLUE %d 0 %s" % (len(f), f.hex()))
    lines += ["ADV %d" % gap, "TICK", "ADV 100", "TICK", "ADV 900", "TICK", "ADV 1000", "TICK"]
    lines.append("GLUE %d 0 %s" % (len(f), f.hex()))
    lines += ["ADV 1000", "TICK"]
    return Scenario(name, lines)


def sc_state_timeout_boundary(name, origin, gap, second):
    """the per-state timeout of the mapping engine at the second boundary: the Discover arrives in the last
    milliseconds of a second (its reply pause carries the clock into the next), the following frame `gap' ms later"""
    lines = ["CLOCK %d" % origin, "NEW"]
    f = discover(0, key_mac(1), gen=1, seq=1, stations=[key_mac(9)])
    lines.append("GLUE %d 0 %s" % (len(f), f.hex()))
    lines.append("ADV %d" % gap)
    lines.append("GLUE %d 0 %s" % (len(second), second.hex()))
    lines += ["TICK", "ADV 1000", "TICK"]
    return Scenario(name, lines)


def boundary_family(prefix, tier):
    scs = []
    m = key_mac(1)
    for origin in ((995, 123456991) if tier == "quick" else (990, 995, 999, 1000, 123456991)):
        for gap in ((3990, 4990, 5990) if tier == "quick" else (3985, 3990, 3995, 4000, 4985, 4990, 4995, 5000, 5985, 5990, 5995, 6000)):
            for j, second in enumerate((query(m, OWN, seq=5), emit(m, OWN, [(1, 0, OWN, key_mac(30))], seq=6), discover(0, m, gen=1, seq=2, stations=[key_mac(9)]))):
                scs.append(sc_state_timeout_boundary("%s-stboundary-%d-%d-%d" % (prefix, origin, gap, j), origin, gap, second))
    for origin in ((995, 999, 123456991) if tier == "quick" else (990, 991, 995, 998, 999, 1000, 123456991, 4294966995)):
        for gap in ((28985, 28995, 29990) if tier == "quick" else (28000, 28980, 28985, 28990, 28995, 29000, 29005, 29985, 29990, 29995, 30000, 30010)):
            scs.append(sc_inactivity_boundary("%s-boundary-%d-%d" % (prefix, origin, gap), origin, gap))
    return scs


def sc_idle_engine(name, seed):
    """The inactivity rule while the mapping engine is idle: sessions recorded through the API (or left over),
    a frame that is not a Discover arms the 30 s timer, then silence: the tick must still empty the table and
    the periodic Hellos must stop with it."""
    rng = random.Random(seed)
    lines = ["CLOCK %d" % rng.choice([1000, 0, 999, 123456000, (1 << 32) - 20000]), "NEW"]
    for _ in range(rng.randrange(1, 4)):
        lines.append("TADD %d %d %d" % (rng.choice([1, 2, 3]), rng.choice([1, 2]), rng.choice([1, 2])))
    if rng.random() < 0.7:
        lines.append("ENEW")
    m = key_mac(rng.choice([1, 2, 5]))
    f = rng.choice([hello(0, key_mac(21), 1, key_mac(1), key_mac(1)), probe(m, OWN, m, OWN), query(m, OWN, seq=5),
                    generic(0, OP_CHARGE, m, OWN), generic(0, OP_FLAT, m, OWN), generic(0, 0x33, m, OWN), generic(2, 0, m, OWN)])
    lines.append("GLUE %d 0 %s" % (len(f), f.hex()))
    if rng.random() < 0.4:
        lines.append("TADD %d 1 1" % rng.choice([1, 4]))
    step = rng.choice([100, 100, 250, 1000])
    t = 0
    while t < 36000:
        lines += ["ADV %d" % step, "TICK"]
        t += step
    lines += ["TADD 2 2 2", "ADV 100", "TICK", "ADV 1000", "TICK"]      # a session recorded afterwards lives: the timer fired once
    return Scenario(name, lines)


def sc_two_interfaces(name, seed):
    """Two interfaces of one responder process, each with its own session and its own periodic Hellos, their
    ticks and frames interleaved: the pacing of one interface is none of the other's business."""
    rng = random.Random(seed)
    lines = ["CLOCK %d" % rng.choice([1000, 0, 5000, 123456000]), "NEW", "INST 1", "NEW", "INST 0"]
    f0 = discover(0, key_mac(1), gen=1, seq=1, stations=[key_mac(9)])
    f1 = discover(rng.choice([0, 1]), key_mac(2), gen=2, seq=1, stations=[key_mac(8)])
    lines.append("GLUE %d 0 %s" % (len(f0), f0.hex()))
    lines.append("ADV %d" % rng.choice([0, 10, 50, 120, 400, 999]))
    lines += ["INST 1", "GLUE %d 0 %s" % (len(f1), f1.hex()), "INST 0"]
    step = rng.choice([10, 50, 100])
    t = 0
    while t < 6000:
        lines.append("ADV %d" % step)
        t += step
        order = [0, 1] if rng.random() < 0.7 else [1, 0]
        for k in order:
            lines += ["INST %d" % k, "TICK"]
            x = rng.random()
            if x < 0.03:
                h = hello(0, key_mac(20 + rng.randrange(5)), 1, key_mac(1 + k), key_mac(1 + k))
                lines.append("GLUE %d 0 %s" % (len(h), h.hex()))
            elif x < 0.04:
                f = f0 if k == 0 else f1
                lines.append("GLUE %d 0 %s" % (len(f), f.hex()))
    lines.append("INST 0")
    return Scenario(name, lines)


def sc_wear(name, seed, which):
    """a long-lived engine: several hundred passes through every state (counters, histories and tables inside the
    engine must not wear out)"""
    rng = random.Random(seed)
    lines = ["NEW"]
    if which == "session":
        for i in range(320):
            lines += ["SSTEP 2", "SSTEP %d" % rng.choice([3, 5]), "SSTEP %d" % rng.choice([4, 4, 6, 7]), "SSTEP 1"]
            if i % 3 == 0:
                lines += ["SSTEP 0", "SSTEP %d" % rng.choice([6, 7])]
            if i % 5 == 0:
                lines += ["SSTEP 2", "ADV 2000", "SSTEP 6"]
    else:
        for i in range(320):
            lines += ["MSTEP 0", "MSTEP 2", "MSTEP -3", "MSTEP %d" % rng.choice([8, 8, 2])]
            if i % 4 == 0:
                lines += ["MSTEP 8", "MSTEP 0", "ADV 6000", "MSTEP 4"]
    return Scenario(name, lines)


def sc_schedule(name, seed, n, long_gaps=False):
    """interleavings of tick, clock advance, session add/refresh/complete/remove/clear, Hello heard,
    frames through the Darwin frame path"""
    rng = random.Random(seed)
    # the monotonic clock may be near 0 or weeks old (2^32 ms is 49.7 days)
    lines = ["CLOCK %d" % rng.choice([1000, 1000, 0, 700, 999, 123456789, 4294960000, 4294967296 + 5000, 34560000000]), "NEW"]
    keys = [1, 2, 3]
    adv = [0, 1, 10, 50, 100, 100, 100, 299, 300, 301, 500, 999, 1000, 1001, 1100, 2000, 5000]
    if long_gaps:
        adv += [29000, 29999, 30000, 30001, 31000, 59000, 60000, 61000, 120000]
    for _ in range(n):
        x = rng.random()
        if x < 0.30:
            lines.append("TICK")
        elif x < 0.50:
            lines.append("ADV %d" % rng.choice(adv))
            lines.append("TICK")
        elif x < 0.68:
            k = rng.choice(keys)
            st = rng.choice([[], [OWN], [key_mac(9)], [key_mac(9), OWN], [key_mac(8), key_mac(9)]])
            f = discover(rng.choice([0, 1]), key_mac(k), gen=rng.choice([1, 1, 2]), seq=rng.choice([1, 2, 3]), stations=st)
            lines.append("GLUE %d 0 %s" % (len(f), f.hex()))
        elif x < 0.73:
            f = reset(key_mac(rng.choice(keys)), tos=rng.choice([0, 1]))
            lines.append("GLUE %d 0 %s" % (len(f), f.hex()))
        elif x < 0.80:
            f = hello(0, key_mac(20 + rng.randrange(5)), 1, key_mac(1), key_mac(1))
            lines.append("GLUE %d 0 %s" % (len(f), f.hex()))
        elif x < 0.88:
            m = key_mac(rng.choice(keys))
            f = rng.choice([query(m, OWN, seq=5), generic(0, OP_CHARGE, m, OWN), probe(m, OWN, m, OWN),
                            emit(m, OWN, [(1, 0, OWN, key_mac(30))], seq=6), generic(0, OP_FLAT, m, OWN),
                            query_large(m, OWN, 0x11, 0, seq=7)])
            lines.append("GLUE %d 0 %s" % (len(f), f.hex()))
        elif x < 0.92:
            lines.append("HEARD %d" % rng.choice([1, 2, 9, 10, 11, 40]))
        elif x < 0.95:
            lines.append("TCOMP %d %d" % (rng.choice(keys), rng.choice([1, 2])))
        elif x < 0.97:
            lines.append("TREM %d %d" % (rng.choice(keys), rng.choice([1, 2])))
        elif x < 0.985:
            lines.append("TADD %d %d 1" % (rng.choice(keys), rng.choice([1, 2])))
            if rng.random() < 0.5:
                lines.append("ENEW")
        else:
            lines.append("TCLEAR")
    lines.append("TICK")
    return Scenario(name, lines)


def campaign_c12(seed, tier):
    rng = random.Random(seed)
    scs = []
    for i in range(64 if tier == "quick" else 6000):
        scs.append(sc_schedule("c12-sched-%d" % i, rng.randrange(1 << 30), 250, long_gaps=(i % 3 == 0)))
    scs += boundary_family("c12", tier)
    for i in range(6 if tier == "quick" else 100):
        scs.append(sc_idle_engine("c12-idle-%d" % i, rng.randrange(1 << 30)))
    for i in range(3 if tier == "quick" else 60):
        scs.append(sc_two_interfaces("c12-twoif-%d" % i, rng.randrange(1 << 30)))
    # long silences (no tick, no frame) followed by table changes made without a tick in between
    for gi, gap in enumerate([1000, 29000, 59000, 60000, 61000, 100000]):
        for variant in ("complete", "remove", "clear", "keep"):
            lines = ["NEW"]
            f = discover(0, key_mac(1), gen=1, seq=1, stations=[key_mac(9)])
            lines.append("GLUE %d 0 %s" % (len(f), f.hex()))
            for _ in range(12):
                lines += ["ADV 100", "TICK"]
            lines.append("ADV %d" % gap)
            if variant == "complete":
                lines += ["TADD 1 1 1", "TCOMP 1 1"]
            elif variant == "remove":
                lines += ["TADD 1 1 1", "TREM 1 1"]
            elif variant == "clear":
                lines += ["TCLEAR"]
            else:
                lines += ["TADD 1 1 2"]
            lines += ["TICK", "ADV 100", "TICK", "ADV 1000", "TICK", "ADV 1000", "TICK"]
            scs.append(Scenario("c12-gap-%d-%s" % (gap, variant), lines))
    # the same driven through the public API only (no frame: the mapping engine's inactivity timer never starts)
    for gi, gap in enumerate([1000, 29000, 59000, 60000, 61000, 100000]):
        for variant in ("complete", "keep", "remove"):
            lines = ["NEW", "TADD 1 1 1", "ENEW"]
            for _ in range(12):
                lines += ["ADV 100", "TICK"]
            lines.append("ADV %d" % gap)
            lines += {"complete": ["TADD 1 1 1", "TCOMP 1 1"], "keep": ["TADD 1 1 2"], "remove": ["TADD 1 1 1", "TREM 1 1"]}[variant]
            lines += ["TICK", "ADV 100", "TICK", "ADV 1000", "TICK", "ADV 31000", "TADD 1 1 3", "TICK", "ADV 1000", "TICK"]
            scs.append(Scenario("c12-apigap-%d-%s" % (gap, variant), lines))
    # a session that is never acknowledged: periodic Hellos must flow (keeps the check non-vacuous)
    # ... wherever the monotonic clock stands: just before its millisecond or second count crosses a power of two
    # (2^32 ms is 49.7 days of uptime), the deadlines armed before the crossing are due after it
    origins = [None, (1 << 32) - 13000, (1 << 32) - 500, (1 << 31) - 5000, (1 << 31) * 1000 - 20000, (1 << 32) * 1000 - 7000,
               (1 << 33) - 29500, 86400000 * 49]
    for oi, org in enumerate(origins if tier == "quick" else origins + [rng.randrange(1 << 44) for _ in range(40)]):
        lines = (["CLOCK %d" % org] if org is not None else []) + ["NEW"]
        f = discover(0, key_mac(1), gen=1, seq=1, stations=[key_mac(9)])
        lines.append("GLUE %d 0 %s" % (len(f), f.hex()))
        for _ in range(400 if oi == 0 else 330):
            lines.append("ADV 100")
            lines.append("TICK")
        if oi:
            lines += ["ADV 31000", "TICK", "ADV 30000", "TICK", "ADV 100", "TICK"]
        scs.append(Scenario("c12-steady" + ("-%d" % oi if oi else ""), lines))
    return scs


# --------------------------------------------------------------------------- C18 constructors
def campaign_c18_ctor():
    lines = []
    for which in ("mapping", "session", "enumeration", "table"):
        for k in (0, 1, 2, 3):
            lines.append("CTOR %s %d" % (which, k))
    return [Scenario("c18-ctor-%s" % l.split()[1] + "-" + l.split()[2], [l]) for l in lines]
