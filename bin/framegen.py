"""Independent byte writer for LLTD frames (written from MS-LLTD, not from lltdProtocol.h).

All functions return bytes.  Offsets (0-based): dst 0-5, src 6-11, ethertype 12-13,
version 14, ToS 15, reserved 16, opcode 17, real dst 18-23, real src 24-29, seq 30-31.
"""
import struct

BCAST = bytes([0xFF] * 6)

OP_DISCOVER, OP_HELLO, OP_EMIT, OP_TRAIN, OP_PROBE, OP_ACK, OP_QUERY, OP_QUERYRESP, \
    OP_RESET, OP_CHARGE, OP_FLAT, OP_QLT, OP_QLTRESP = range(13)


def mac(x):
    """int or bytes or hex string -> 6 bytes"""
    if isinstance(x, (bytes, bytearray)):
        assert len(x) == 6
        return bytes(x)
    if isinstance(x, str):
        return bytes.fromhex(x.replace(":", ""))
    return int(x).to_bytes(6, "big")


def header(tos, op, eth_dst, eth_src, real_dst, real_src, seq, etype=0x88D9, ver=1, rsv=0):
    return (mac(eth_dst) + mac(eth_src) + struct.pack(">H", etype) + bytes([ver, tos & 0xFF, rsv, op & 0xFF])
            + mac(real_dst) + mac(real_src) + struct.pack(">H", seq & 0xFFFF))


def discover(tos, real_src, eth_src=None, gen=0, seq=0, stations=(), count=None, eth_dst=BCAST, real_dst=BCAST):
    eth_src = real_src if eth_src is None else eth_src
    body = struct.pack(">HH", gen & 0xFFFF, (len(stations) if count is None else count) & 0xFFFF)
    for s in stations:
        body += mac(s)
    return header(tos, OP_DISCOVER, eth_dst, eth_src, real_dst, real_src, seq) + body


def hello(tos, real_src, gen, cur, app, tlvs=b"\x00", eth_src=None):
    eth_src = real_src if eth_src is None else eth_src
    return (header(tos, OP_HELLO, BCAST, eth_src, BCAST, real_src, 0) + struct.pack(">H", gen & 0xFFFF)
            + mac(cur) + mac(app) + tlvs)


def emit(real_src, own, descs, seq=1, eth_src=None, declared=None, tos=0):
    """descs: list of (kind, pause, src, dst)"""
    eth_src = real_src if eth_src is None else eth_src
    body = struct.pack(">H", (len(descs) if declared is None else declared) & 0xFFFF)
    for kind, pause, s, d in descs:
        body += bytes([kind & 0xFF, pause & 0xFF]) + mac(s) + mac(d)
    return header(tos, OP_EMIT, own, eth_src, own, real_src, seq) + body


def probe(eth_src, eth_dst, real_src, real_dst, train=False, tos=0, seq=0):
    return header(tos, OP_TRAIN if train else OP_PROBE, eth_dst, eth_src, real_dst, real_src, seq)


def query(real_src, own, seq=1, eth_src=None, tos=0):
    eth_src = real_src if eth_src is None else eth_src
    return header(tos, OP_QUERY, own, eth_src, own, real_src, seq)


def query_large(real_src, own, typ, offset, seq=1, eth_src=None, tos=0):
    eth_src = real_src if eth_src is None else eth_src
    return header(tos, OP_QLT, own, eth_src, own, real_src, seq) + bytes([typ & 0xFF, 0]) + struct.pack(">H", offset & 0xFFFF)


def reset(real_src, tos=0, eth_src=None, real_dst=BCAST, eth_dst=BCAST, seq=0):
    eth_src = real_src if eth_src is None else eth_src
    return header(tos, OP_RESET, eth_dst, eth_src, real_dst, real_src, seq)


def generic(tos, op, real_src, own, seq=0, eth_src=None, body=b""):
    eth_src = real_src if eth_src is None else eth_src
    return header(tos, op, own, eth_src, own, real_src, seq) + body


# ---------------------------------------------------------------- script helpers
def data_byte(salt, i):
    return (salt + 37 * i + 11 * (i // 256)) & 0xFF


class Script:
    """Accumulates driver script lines."""

    def __init__(self):
        self.lines = []

    def cfg(self, host=b"verif-host", icon=None, name=None, hwid=b"", uuid=None):
        parts = ["CFG", "host=" + (host.hex() or "-")]
        parts.append("icon=" + ("-" if icon is None else "%d:%d" % icon))
        parts.append("name=" + ("-" if name is None else "%d:%d" % name))
        parts.append("hwid=" + (hwid.hex() or "-"))
        parts.append("uuid=" + ("-" if uuid is None else uuid.hex()))
        self.lines.append(" ".join(parts))

    def boot(self, ifc, own, mtu=1500, wifi=0, fill=0xA5, **attrs):
        parts = ["IF", str(ifc), "mac=" + mac(own).hex(), "mtu=%d" % mtu, "wifi=%d" % wifi, "fill=%d" % fill]
        for k, v in attrs.items():
            if isinstance(v, (bytes, bytearray)):
                parts.append("%s=%s" % (k, v.hex() or "-"))
            else:
                parts.append("%s=%d" % (k, v))
        self.lines.append(" ".join(parts))

    def set(self, ifc, **attrs):
        """the platform's view of an existing interface changes (SET): only the given attributes"""
        parts = ["SET", str(ifc)]
        for k, v in attrs.items():
            if isinstance(v, (bytes, bytearray)):
                parts.append("%s=%s" % (k, v.hex() or "-"))
            else:
                parts.append("%s=%d" % (k, v))
        self.lines.append(" ".join(parts))

    def rx(self, ifcs, frame, length=None, fill=0, all_entries=False):
        if isinstance(ifcs, int):
            ifcs = [ifcs]
        length = len(frame) if length is None else length
        self.lines.append("%s %s %d %d %s" % ("RXALL" if all_entries else "RX", ",".join(map(str, ifcs)),
                                              length, fill, frame.hex() or "-"))

    def drain(self, ifc, frame, maxn, large=False, fill=0):
        self.lines.append("%s %d %d %d %d %s" % ("LDRAIN" if large else "DRAIN", ifc, maxn, len(frame), fill, frame.hex()))

    def flood(self, ifc, n, seed):
        self.lines.append("FLOOD %d %d %d" % (ifc, n, seed))

    def pipe(self, a, b, fill=0):
        self.lines.append("PIPE %d %d %d" % (a, b, fill))

    def prx(self, a, b, k, fa, fb, fill_a=0, fill_b=0):
        """interface a's frame, preempted at its k-th port call by interface b's frame"""
        self.lines.append("PRX %d %d %d %d %d %s %d %d %s" % (a, b, k, len(fa), fill_a, fa.hex(), len(fb), fill_b, fb.hex()))

    def adv(self, ms):
        self.lines.append("ADV %d" % ms)

    def fault(self, alloc=0, sticky=0, send=0, get=0):
        self.lines.append("FAULT alloc=%d sticky=%d send=%s get=%d" % (alloc, sticky, send if isinstance(send, str) else hex(send), get))

    def clear(self):
        self.lines.append("CLEAR")

    def mark(self, name):
        self.lines.append("MARK " + name.replace(" ", "_"))

    def text(self):
        return "\n".join(self.lines) + "\n"
