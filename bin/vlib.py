"""Shared machinery for the checks: builds, harness runs, TLC runs, evidence, replay files."""
import concurrent.futures
import hashlib
import json
import os
import re
import shutil
import subprocess
import sys
import time

VERIF = os.path.dirname(os.path.dirname(os.path.abspath(__file__)))
REPO = os.environ.get("VERIF_REPO", "/repo")
OUT = os.path.join(VERIF, "out")
SPEC = os.path.join(VERIF, "spec")
HARNESS = os.path.join(VERIF, "harness")
TLA_JAR = "/opt/veriftools/tla/tla2tools.jar"
COMMUNITY = "/opt/veriftools/tla/CommunityModules-deps.jar"

CORE = ["lltdResponder/lltdBlock.c", "lltdResponder/lltdAutomata.c",
        "lltdResponder/lltdTlvOps.c", "lltdResponder/lltdWire.c"]


class Infra(Exception):
    """Infrastructure failure: exit 2, never a verdict."""


def log(*a):
    print(*a, file=sys.stderr, flush=True)


def sh(cmd, timeout=None, env=None, cwd=None, stdin=None):
    e = dict(os.environ)
    if env:
        e.update(env)
    try:
        p = subprocess.run(cmd, stdout=subprocess.PIPE, stderr=subprocess.PIPE, timeout=timeout, env=e, cwd=cwd,
                           input=stdin)
        return p.returncode, p.stdout.decode("utf-8", "replace"), p.stderr.decode("utf-8", "replace")
    except subprocess.TimeoutExpired as ex:
        so = (ex.stdout or b"").decode("utf-8", "replace")
        se = (ex.stderr or b"").decode("utf-8", "replace")
        return -999, so, se


# ------------------------------------------------------------------ builds
SAN = {
    "asan": ["-fsanitize=address,undefined", "-fno-sanitize-recover=all", "-fno-omit-frame-pointer"],
    "tsan": ["-fsanitize=thread", "-fno-omit-frame-pointer"],
    "msan": ["-fsanitize=memory", "-fsanitize-memory-track-origins", "-fno-omit-frame-pointer"],
    "plain": [],
}


def _hash_files(paths, extra):
    h = hashlib.sha256()
    for p in paths:
        h.update(p.encode())
        with open(p, "rb") as f:
            h.update(f.read())
    h.update(repr(extra).encode())
    return h.hexdigest()[:20]


def repo_headers():
    res = []
    for d in ["lltdResponder", "os/esp32/daemon", "os/linux", "os/linux/daemon", "os/darwin/daemon"]:
        full = os.path.join(REPO, d)
        if os.path.isdir(full):
            for fn in sorted(os.listdir(full)):
                if fn.endswith((".h", ".c")):
                    res.append(os.path.join(full, fn))
    return res


GLUE_FROM = "// Derive session event from the received frame"
GLUE_TO = "&tick_port);"
GLUE_FALLBACK_USED = [False]


def extract_glue():
    """The frame path of the Darwin daemon's lltdLoop, textually: from 'Derive session event' to the
    post-frame automata_tick.  Falls back to a transcription of the documented flow."""
    p = os.path.join(REPO, "os/darwin/daemon/darwin-main.c")
    try:
        with open(p) as f:
            lines = f.read().split("\n")
        a = next(i for i, l in enumerate(lines) if GLUE_FROM in l)
        b = next(i for i in range(a, len(lines)) if GLUE_TO in lines[i])
        GLUE_FALLBACK_USED[0] = False
        return "\n".join(lines[a:b + 1]) + "\n"
    except (OSError, StopIteration):
        GLUE_FALLBACK_USED[0] = True
        with open(os.path.join(HARNESS, "glue_fallback.inc")) as f:
            return f.read()


def build(name, driver_srcs, repo_srcs, san="asan", defines=(), extra_flags=(), libs=(), gen=None):
    """Compile a harness binary from /repo's working tree; cached by content hash."""
    srcs = [os.path.join(HARNESS, s) for s in driver_srcs] + [os.path.join(REPO, s) for s in repo_srcs]
    deps = srcs + repo_headers() + [os.path.join(HARNESS, f) for f in sorted(os.listdir(HARNESS))]
    key = _hash_files(sorted(set(deps)), (name, san, defines, extra_flags, libs, sorted((gen or {}).items())))
    cdir = os.path.join(OUT, "cache", key)
    binp = os.path.join(cdir, name)
    if os.path.exists(binp):
        return binp
    os.makedirs(cdir, exist_ok=True)
    for fn, text in (gen or {}).items():
        with open(os.path.join(cdir, fn), "w") as f:
            f.write(text)
    extra_flags = list(extra_flags) + ["-I" + cdir]
    tmpb = "%s.tmp%d" % (binp, os.getpid())      # two checks may build the same binary at the same time
    cmd = (["clang", "-O1", "-g", "-w"] + SAN[san] + ["-DLLTD_VERIF_HOOKS"] + ["-D" + d for d in defines]
           + list(extra_flags)
           + ["-I" + os.path.join(REPO, "lltdResponder"), "-I" + os.path.join(REPO, "os/esp32/daemon"), "-I" + HARNESS]
           + ["-o", tmpb] + srcs + list(libs))
    rc, so, se = sh(cmd, timeout=600)
    if rc != 0:
        raise Infra("build of %s failed:\n%s" % (name, se[-4000:]))
    os.replace(tmpb, binp)
    return binp


def build_automata(san="asan"):
    return build("run_automata", ["run_automata.c", "vport.c"], CORE + ["os/esp32/daemon/lltd_esp32.c"], san=san, gen={"glue.inc": extract_glue()})


def build_registry(san="asan"):
    return build("run_registry", ["run_registry.c", "vport.c"], CORE, san=san, libs=("-lpthread",))


def build_linuxport(san="asan"):
    wraps = "-Wl," + ",".join("--wrap=" + f for f in ("sendto", "getifaddrs", "freeifaddrs", "gethostname", "nanosleep", "clock_gettime"))
    return build("run_linuxport", ["run_linuxport.c"], CORE + ["os/linux/lltd_port.c"], san=san,
                 extra_flags=["-I" + os.path.join(REPO, "os/linux"), wraps])


def build_responder(san="asan"):
    return build("run_responder", ["run_responder.c", "vport.c"], CORE + ["os/esp32/daemon/lltd_esp32.c"], san=san, libs=("-lpthread",))


# ------------------------------------------------------------------ work dirs
class Work:
    def __init__(self, prop):
        self.dir = os.path.join(OUT, "run-%s-%d" % (prop, os.getpid()))
        shutil.rmtree(self.dir, ignore_errors=True)
        os.makedirs(self.dir)
        for fn in os.listdir(SPEC):
            if fn.endswith((".tla", ".cfg")):
                shutil.copy(os.path.join(SPEC, fn), self.dir)

    def path(self, *a):
        return os.path.join(self.dir, *a)

    def cleanup(self):
        shutil.rmtree(self.dir, ignore_errors=True)


# ------------------------------------------------------------------ TLC
def java_cmd(xmx="3g", extra=()):
    return ["java", "-XX:+UseParallelGC", "-Xmx" + xmx, "-Xss16m"] + list(extra) + ["-cp", TLA_JAR + ":" + COMMUNITY, "tlc2.TLC"]


_TLC_STATES = re.compile(r"(\d+) states generated, (\d+) distinct states found")


def tlc_classpath_ok():
    return os.path.exists(TLA_JAR)


def tlc_run(workdir, module, cfg, workers=1, env=None, timeout=900, xmx="3g", extra=(), metadir=None, jextra=()):
    metadir = metadir or os.path.join(workdir, "meta-%s-%d-%d" % (os.path.basename(cfg), os.getpid(), int(time.time() * 1e6) % 10 ** 9))
    # TLC / SANY unpack their standard modules into java.io.tmpdir on every start: keep that inside the work directory
    # (removed with it) instead of littering /tmp
    jtmp = metadir + "-jtmp"
    os.makedirs(jtmp, exist_ok=True)
    cmd = java_cmd(xmx, tuple(jextra) + ("-Djava.io.tmpdir=" + jtmp,)) + ["-workers", str(workers), "-metadir", metadir, "-config", cfg] + list(extra) + [module]
    t0 = time.time()
    rc, so, se = sh(cmd, timeout=timeout, env=env, cwd=workdir)
    shutil.rmtree(metadir, ignore_errors=True)
    shutil.rmtree(jtmp, ignore_errors=True)
    m = _TLC_STATES.search(so)
    return {"rc": rc, "out": so, "err": se, "generated": int(m.group(1)) if m else 0,
            "distinct": int(m.group(2)) if m else 0, "wall": time.time() - t0}


def write_trace_cfg(path, check, spec="TraceSpec", primary=""):
    with open(path, "w") as f:
        f.write("SPECIFICATION %s\nCONSTANT Check = {%s}\nCONSTANT Primary = \"%s\"\nCONSTRAINT Progress\nPOSTCONDITION Accepted\nCHECK_DEADLOCK FALSE\n"
                % (spec, ",".join('"%s"' % c for c in sorted(check)), primary))


_ACC = re.compile(r'<<"ACCEPTED", (\d+), "EXERCISED", (\d+)>>')
_REJ = re.compile(r'<<"REJECTED_AT", (\d+), "LN", (\d+), "EXERCISED", (\d+)>>')


PRIMARY = [""]


def validate_trace(workdir, trace, check, module="ResponderTrace.tla", tag="t", timeout=1200):
    """Returns dict(accepted, events, exercised, rejected_at, ln, states).  Raises Infra on TLC trouble."""
    # TLC integers are 32-bit and the JSON reader wraps silently: refuse traces with wider numbers
    with open(trace) as f:
        # (numbers only: what stands inside a string - a scenario name in a mark event - is not read as a number)
        for big in re.finditer(r"(?<![\d.])-?\d{10,}(?![\d.])", re.sub(r'"[^"\\]*"', '""', f.read())):
            if abs(int(big.group(0))) >= 2 ** 31:
                raise Infra("trace %s holds the number %s, which does not fit TLC's 32-bit integers" % (trace, big.group(0)))
    # several instances driven in one process (automata driver, INST k): each instance's events form a trace of
    # their own - every interface must behave as it would alone - validated one after the other
    with open(trace) as f:
        lines = f.readlines()
    insts = sorted(set(int(m.group(1)) for ln in lines for m in [re.search(r'"inst":(\d+)', ln[:80])] if m))
    if len(insts) > 1 and not tag.endswith("-inst"):
        tot = None
        for k in insts:
            sub = trace + ".inst%d" % k
            with open(sub, "w") as f:
                for ln in lines:
                    m = re.search(r'"inst":(\d+)', ln[:80])
                    if m is None or int(m.group(1)) == k:
                        f.write(ln)
            v = validate_trace(workdir, sub, check, module=module, tag="%s-%d-inst" % (tag, k), timeout=timeout)
            if not v["accepted"]:
                return v
            os.remove(sub)
            if tot is None:
                tot = v
            else:
                for key in ("events", "exercised", "states", "generated"):
                    tot[key] += v[key]
        return tot
    cfg = os.path.join(workdir, "%s.cfg" % tag)
    write_trace_cfg(cfg, check, primary=PRIMARY[0])
    r = tlc_run(workdir, module, cfg, workers=1, env={"TRACE": trace}, timeout=timeout)
    m = _ACC.search(r["out"])
    if m:
        return {"accepted": True, "events": int(m.group(1)), "exercised": int(m.group(2)),
                "states": r["distinct"], "generated": r["generated"], "wall": r["wall"]}
    m = _REJ.search(r["out"])
    if m:
        return {"accepted": False, "rejected_at": int(m.group(1)), "ln": int(m.group(2)), "exercised": int(m.group(3)),
                "states": r["distinct"], "generated": r["generated"], "wall": r["wall"]}
    errs = "\n".join(re.findall(r"(?:Error:|The exception was|: Attempted)[^\n]*(?:\n[^\n]*){0,3}", r["out"])[:3])
    raise Infra("TLC gave no verdict on %s (rc=%s):\n%s\n...\n%s\n%s" % (trace, r["rc"], errs, r["out"][-1500:], r["err"][-1000:]))


# ------------------------------------------------------------------ harness runs
def run_harness(binp, script_path, trace_path, timeout=600, env=None):
    e = {"ASAN_OPTIONS": "detect_leaks=0:abort_on_error=0:allocator_may_return_null=1",
         "UBSAN_OPTIONS": "print_stacktrace=1:halt_on_error=1"}
    if env:
        e.update(env)
    rc, so, se = sh([binp, script_path, trace_path], timeout=timeout, env=e)
    return rc, se


def last_line_of_trace(trace_path):
    last = None
    try:
        with open(trace_path) as f:
            for line in f:
                line = line.strip()
                if line:
                    last = line
    except OSError:
        return None
    if not last:
        return None
    try:
        return json.loads(last)
    except ValueError:
        return None


# ------------------------------------------------------------------ scenarios
class Scenario:
    """A self-contained piece of driver script (starts with its own CFG/IF lines)."""

    def __init__(self, name, lines, meta=None):
        self.name = name
        self.lines = lines
        self.meta = meta or {}


def assemble(scenarios):
    """-> (script text, list of (first_line, last_line, scenario)) with 1-based line numbers"""
    out = []
    spans = []
    n = 0
    for sc in scenarios:
        first = n + 1
        out.append("MARK " + sc.name)
        n += 1
        for ln in sc.lines:
            out.append(ln)
            n += 1
        spans.append((first, n, sc))
    return "\n".join(out) + "\n", spans


def scenario_at(spans, ln):
    for a, b, sc in spans:
        if a <= ln <= b:
            return sc
    return None


def shard(items, n):
    n = max(1, min(n, len(items)))
    return [items[i::n] for i in range(n)]


def write_replay(prop, check, scenario, why, seed, idx, kind="responder"):
    d = os.path.join(OUT, "replays")
    os.makedirs(d, exist_ok=True)
    p = os.path.join(d, "%s-%s-%d.script" % (prop, seed, idx))
    with open(p, "w") as f:
        f.write("# replay property=%s kind=%s check=%s\n# scenario=%s\n# why=%s\n" % (prop, kind, ",".join(sorted(check)), scenario.name, why.replace("\n", " ")[:500]))
        f.write("\n".join(scenario.lines) + "\n")
    return p


def parallel(fn, items, workers=16):
    with concurrent.futures.ThreadPoolExecutor(max_workers=workers) as ex:
        return list(ex.map(fn, items))


# ------------------------------------------------------------------ evidence
def write_evidence(prop, tier, seed, level, coverage, assumptions, wall, violations):
    # evidence/ describes runs against /repo itself; a run against a scratch worktree (VERIF_REPO) is kept apart
    evdir = os.path.join(VERIF, "evidence") if os.path.realpath(REPO) == "/repo" else os.path.join(OUT, "evidence-scratch")
    if prop.startswith("X"):          # extension checks decide no listed property: their reports live apart
        evdir = os.path.join(VERIF, "evidence-ext") if os.path.realpath(REPO) == "/repo" else evdir
    os.makedirs(evdir, exist_ok=True)
    ev = {"property_id": prop, "tier": tier, "seed": int(seed), "level": level, "coverage": coverage,
          "assumptions": assumptions, "wall_s": round(wall, 2), "violations": int(violations)}
    p = os.path.join(evdir, prop + ".json")
    with open(p + ".tmp", "w") as f:
        json.dump(ev, f, indent=1)
    os.replace(p + ".tmp", p)
    return p


def load_known_findings():
    p = os.path.join(VERIF, "known_findings.json")
    if not os.path.exists(p):
        return []
    with open(p) as f:
        return json.load(f).get("findings", [])
