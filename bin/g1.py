"""G1: transition cover of the mechanism model (ResponderImpl.tla) replayed on the real code.

TLC explores the mechanism breadth-first with Mtu = 576 (replayable) and prints one shortest
request path per mechanism state; every (state, request) pair - every transition of the model -
becomes a script: path to the state, the request, then a distinguishing suffix that reads the
reached state back out (Discover from two stations, Query, QueryLargeTlv).
"""
import hashlib
import json
import os
import random
import re

import vlib
from framegen import *
from vlib import Infra, Scenario

OWN_MC = bytes([2, 0, 0, 0, 0, 1])
M1_MC = bytes([2, 0, 0, 0, 0, 11])
M2_MC = bytes([2, 0, 0, 0, 0, 12])


def _frame(r):
    h = header(r["tos"], r["op"], bytes(r["ed"]), bytes(r["es"]), bytes(r["rd"]), bytes(r["rs"]), r["seq"])
    op = r["op"]
    if op == OP_DISCOVER:
        return h + struct.pack(">HH", r["gen"], 0)
    if op == OP_EMIT:
        carried = (r["len"] - 34) // 14
        body = struct.pack(">H", r["declared"])
        for d in r["descs"][:carried]:
            body += bytes([d["kind"], d["pause"]]) + bytes(d["src"]) + bytes(d["dst"])
        return h + body
    if op == OP_QLT:
        return h + bytes([r["ltype"], 0]) + struct.pack(">H", r["off"])
    return h


def load(scope=1):
    """-> (list of request frames, list of paths (lists of 0-based request indices))"""
    srcs = [os.path.join(vlib.SPEC, f) for f in ("ImplPaths.tla", "ResponderImpl.tla", "MCUniverse.tla", "Responder.tla", "Wire.tla", "ImplPaths.cfg")]
    h = hashlib.sha256()
    for p in srcs:
        h.update(open(p, "rb").read())
    h.update(str(scope).encode())
    cache = os.path.join(vlib.OUT, "cache", "g1-%s.json" % h.hexdigest()[:16])
    if os.path.exists(cache):
        with open(cache) as f:
            d = json.load(f)
    else:
        work = vlib.Work("g1")
        cfg = work.path("ImplPaths.cfg")
        with open(cfg) as f:
            c = f.read().replace("Scope = 1", "Scope = %d" % scope)
        with open(cfg, "w") as f:
            f.write(c)
        r = vlib.tlc_run(work.dir, "ImplPaths.tla", cfg, workers=4, timeout=600)
        if r["rc"] != 0:
            raise Infra("state-cover run of ResponderImpl failed:\n" + r["out"][-2000:])
        m = re.search(r'<<"REQS", "(.*)">>', r["out"])
        if not m:
            raise Infra("no REQS line in the state-cover run")
        reqs = json.loads(m.group(1).replace('\\"', '"'))
        paths = []
        for pm in re.finditer(r'<<"PATH", <<(.*?)>>>>', r["out"]):
            body = pm.group(1).strip()
            paths.append([int(x) - 1 for x in body.split(",")] if body else [])
        d = {"reqs": reqs, "paths": paths, "states": r["distinct"], "transitions": r["generated"]}
        os.makedirs(os.path.dirname(cache), exist_ok=True)
        with open(cache, "w") as f:
            json.dump(d, f)
        work.cleanup()
    return [_frame(r) for r in d["reqs"]], d["paths"], d


def suffix():
    return [discover(0, M1_MC, gen=0x0101, seq=21), discover(0, M2_MC, gen=0x0202, seq=22),
            query(M1_MC, OWN_MC, seq=23), query_large(M1_MC, OWN_MC, 0x0E, 0, seq=24)]


def boot(s, twins=False, mtu=576):
    s.cfg(host=b"g1-host", icon=(700, 5), name=(12, 9), hwid="G1".encode("utf-16le"))
    s.boot(1, OWN_MC, mtu=mtu, fill=0xA5, ipv4=bytes([10, 1, 1, 1]), speed=100000, flags=0x2000)
    if twins:
        s.boot(2, OWN_MC, mtu=mtu, fill=0x5A, ipv4=bytes([10, 1, 1, 1]), speed=100000, flags=0x2000)


def transition_scenarios(seed, limit=None, scope=1):
    frames, paths, d = load(scope)
    pairs = [(pi, ri) for pi in range(len(paths)) for ri in range(len(frames))]
    rng = random.Random(seed)
    if limit is not None and limit < len(pairs):
        pairs = rng.sample(pairs, limit)
    scs = []
    for pi, ri in pairs:
        s = Script()
        boot(s)
        for i in paths[pi]:
            s.rx(1, frames[i])
        s.rx(1, frames[ri])
        for f in suffix():
            s.rx(1, f)
        scs.append(Scenario("g1-s%d-r%d" % (pi, ri), s.lines))
    return scs, {"model_states": len(paths), "model_requests": len(frames), "model_transitions": len(paths) * len(frames), "replayed": len(pairs)}


def state_cover_histories(seed, limit=None, scope=1):
    """one shortest history per mechanism state (for C09: the state before the Reset)"""
    frames, paths, d = load(scope)
    idx = list(range(len(paths)))
    rng = random.Random(seed)
    if limit is not None and limit < len(idx):
        idx = rng.sample(idx, limit)
    return [[frames[i] for i in paths[pi]] for pi in idx], {"model_states": len(paths), "histories": len(idx)}


def small_alphabet_walks(seed, n, length=40, scope=1):
    """random walks over the model's small request alphabet (few stations, few probe keys): coincidences
    such as 'the first probe after a Query equals the last one before it' are frequent, which exposes
    state the mechanism model does not have (caches, flags)"""
    frames, paths, d = load(scope)
    rng = random.Random(seed * 7919 + 13)
    scs = []
    for i in range(n):
        s = Script()
        boot(s, mtu=rng.choice([576, 590, 1500]))
        for _ in range(length):
            s.rx(1, rng.choice(frames), fill=rng.choice([0, 0, 0, 0xFF, 1, 0xC0]))   # stale bytes behind the frame
        for f in suffix():
            s.rx(1, f)
        scs.append(Scenario("g1-walk-%d" % i, s.lines))
    return scs
