"""Per-property check runners."""
import json
import os
import re
import shutil
import time

import campaigns
import vlib
from vlib import Infra, Scenario, log

NSHARDS = 16
MAX_VIOLATIONS = 5


# =========================================================================== model-checking step
def mc_step(work, module, cfg, workers=8, timeout=900, xmx="6g", extra=(), scope=None):
    """Run TLC on a model (not a trace).  A failure of the model itself is an infrastructure /
    specification problem (exit 2), never a verdict on the code."""
    if scope is not None:
        with open(work.path(cfg)) as f:
            c = f.read()
        with open(work.path(cfg), "w") as f:
            f.write(re.sub(r"Scope = \d+", "Scope = %d" % scope, c))
    # LazyValue caching is not safe with several workers (sporadic "unexpected exception"): switched off
    r = vlib.tlc_run(work.dir, module, work.path(cfg), workers=workers, timeout=timeout, xmx=xmx, extra=extra,
                     jextra=("-Dtlc2.value.impl.LazyValue.off=true",))
    if r["rc"] != 0 and "is violated" not in r["out"]:
        # TLC's multi-worker evaluation occasionally throws on lazily evaluated LET values: repeat single-threaded
        log("model run of %s failed without a verdict (rc=%s); repeating with one worker" % (module, r["rc"]))
        r = vlib.tlc_run(work.dir, module, work.path(cfg), workers=1, timeout=timeout * 3, xmx=xmx, extra=extra)
    if r["rc"] != 0:
        raise Infra("model %s/%s did not pass (rc=%s):\n%s" % (module, cfg, r["rc"], r["out"][-3000:]))
    return {"module": module, "cfg": cfg, "states": r["distinct"], "transitions": r["generated"], "wall_s": round(r["wall"], 1)}


def sim_step(work, module, cfg, num, depth, seed, must=None, workers=8, timeout=600):
    """TLC in simulation mode (random behaviours of bounded length) for models whose state space is unbounded.
    must: an 'Invariant X is violated' line that HAS to appear (vacuity guard); otherwise any violation is a
    failure of the model itself (exit 2, never a verdict on the code)."""
    r = vlib.tlc_run(work.dir, module, work.path(cfg), workers=workers, timeout=timeout, xmx="3g",
                     extra=("-simulate", "num=%d" % num, "-depth", str(depth), "-seed", str(int(seed))))
    m = re.search(r"The number of states generated: (\d+)", r["out"]) or re.search(r"Progress: (\d+) states checked", r["out"])
    n = int(m.group(1)) if m else 0
    if must:
        if must not in r["out"]:
            raise Infra("vacuity guard %s/%s was not refuted in simulation: %s" % (module, cfg, r["out"][-500:]))
        return {"module": module, "cfg": cfg + " (reachability, refuted as required; simulation)", "states": n, "transitions": n}
    if r["rc"] != 0 or "is violated" in r["out"] or n == 0:
        raise Infra("model %s/%s did not pass in simulation (rc=%s):\n%s" % (module, cfg, r["rc"], r["out"][-3000:]))
    return {"module": module, "cfg": cfg + " (simulation num=%d depth=%d x %d workers)" % (num, depth, workers), "states": n,
            "transitions": n, "wall_s": round(r["wall"], 1)}


# =========================================================================== responder campaigns
def _prefix_scenario(scs, sc):
    """all scenarios of the shard up to and including sc, as one scenario (for position-dependent failures)"""
    lines = []
    for x in scs:
        lines.append("MARK " + x.name)
        lines += x.lines
        if x is sc:
            break
    return Scenario(sc.name + "+shard-prefix", lines)


def _run_shard(work, binp, check, idx, scs, module="ResponderTrace.tla"):
    """Run one shard; on rejection drop the offending scenario and go on, so that the rest of the
    shard is still validated.  Returns (stats, [(scenario, why)])."""
    bad = []
    stats = {"events": 0, "exercised": 0, "accepted": 0, "states": 0, "generated": 0}
    todo = list(scs)
    rnd = 0
    while todo:
        rnd += 1
        text, spans = vlib.assemble(todo)
        spath = work.path("s%d_%d.script" % (idx, rnd))
        tpath = work.path("s%d_%d.ndjson" % (idx, rnd))
        with open(spath, "w") as f:
            f.write(text)
        rc, err = vlib.run_harness(binp, spath, tpath)
        if rc == 2 and "HARNESS:" in err:
            raise Infra("harness refused script %s: %s" % (spath, err[-500:]))
        if rc != 0:
            # crash / sanitizer abort / hang of the code under test: the request after the last
            # completed event
            last = vlib.last_line_of_trace(tpath)
            ln = (last or {}).get("ln", 0)
            lines = text.split("\n")
            nxt = ln + 1
            while nxt <= len(lines) and lines[nxt - 1].split(" ")[0] in ("MARK", "CFG", "IF", "LIF", "ADV", "FAULT", "CLEAR", ""):
                nxt += 1
            if last and last.get("e") == "req" and lines[ln - 1].startswith(("DRAIN", "LDRAIN")):
                nxt = ln
            sc = vlib.scenario_at(spans, min(nxt, len(lines) - 1)) or todo[-1]
            why = "harness rc=%s (crash/sanitizer/hang) at script line %d: %s" % (rc, nxt, _san_summary(err))
            bad.append((sc, why, list(todo)))
            todo = [s for s in todo if s is not sc]
            if len(bad) >= MAX_VIOLATIONS:
                break
            continue
        v = vlib.validate_trace(work.dir, tpath, check, module=module, tag="s%d_%d" % (idx, rnd))
        if v["accepted"]:
            stats["events"] += v["events"]
            stats["exercised"] += v["exercised"]
            stats["accepted"] += len(todo)
            stats["states"] += v["states"]
            stats["generated"] += v["generated"]
            for p in (spath, tpath):
                os.remove(p)
            break
        sc = vlib.scenario_at(spans, v["ln"])
        if sc is None:
            raise Infra("rejected at line %s which belongs to no scenario" % v["ln"])
        bad.append((sc, "trace rejected by the specification at script line %d (event %d) with Check=%s"
                    % (v["ln"] - [a for a, b, s in spans if s is sc][0], v["rejected_at"], ",".join(sorted(check))), list(todo)))
        todo = [s for s in todo if s is not sc]
        if len(bad) >= MAX_VIOLATIONS:
            break
    return stats, bad


def _san_summary(err):
    head = ""
    for line in err.split("\n"):
        if not head and ("runtime error" in line or "ERROR: AddressSanitizer" in line or "ERROR: ThreadSanitizer" in line):
            head = re.sub(r"0x[0-9a-f]+", "0x..", re.sub(r"==\d+==", "", line.strip()))[:200]
        m = re.search(r"#\d+ 0x[0-9a-f]+ in (\S+) (/repo/\S+)", line)
        if head and m:
            return head + " in " + m.group(1) + " " + m.group(2)
    if head:
        return head
    for line in err.split("\n"):
        if "SUMMARY" in line:
            return line.strip()[:300]
    return err.strip().split("\n")[-1][:300] if err.strip() else ""


def confirm(work, binp, check, sc, module="ResponderTrace.tla"):
    """Re-run one scenario alone: a rejection counts only if it repeats."""
    text, spans = vlib.assemble([sc])
    spath = work.path("confirm.script")
    tpath = work.path("confirm.ndjson")
    with open(spath, "w") as f:
        f.write(text)
    rc, err = vlib.run_harness(binp, spath, tpath)
    if rc != 0:
        return True, "harness rc=%s: %s" % (rc, _san_summary(err))
    v = vlib.validate_trace(work.dir, tpath, check, module=module, tag="confirm")
    if v["accepted"]:
        return False, ""
    return True, "rejected at scenario line %d" % (v["ln"] - 1)


def match_known(prop, sc, why):
    for k in vlib.load_known_findings():
        if k.get("property") != prop or k.get("status") != "open":
            continue
        sig = k.get("signature", {})
        if "scenario" not in sig and "why" not in sig:
            continue        # a finding identified in another way (thread schedule, sanitizer report): never matches a rejected trace
        if "scenario" in sig and not re.search(sig["scenario"], sc.name):
            continue
        if "why" in sig and not re.search(sig["why"], why):
            continue
        return k
    return None


def run_campaign(prop, check, scenarios, seed, work, binp, module="ResponderTrace.tla"):
    vlib.PRIMARY[0] = prop
    shards = vlib.shard(scenarios, NSHARDS)
    results = vlib.parallel(lambda t: _run_shard(work, binp, check, t[0], t[1], module), list(enumerate(shards)), workers=NSHARDS)
    tot = {"events": 0, "exercised": 0, "accepted": 0, "states": 0, "generated": 0}
    viol = []
    known = []
    nconf = 0
    for stats, bad in results:
        for k in tot:
            tot[k] += stats[k]
        for sc, why, shard_scs in bad:
            if nconf >= 8:        # enough confirmed violations to act on; the rest are not re-run
                continue
            nconf += 1
            again, why2 = confirm(work, binp, check, sc, module)
            if not again:
                # the failure may depend on what ran before it in the same process (state that outlives an
                # interface): repeat with the shard's prefix; that combined script is then the replay
                sc = _prefix_scenario(shard_scs, sc)
                again, why2 = confirm(work, binp, check, sc, module)
                if not again:
                    raise Infra("rejection of scenario %s repeated neither alone nor after its shard prefix (%s)" % (sc.name, why))
            k = match_known(prop, sc, why + " " + why2)
            if k:
                known.append((k, sc))
                continue
            viol.append((sc, why + " / alone: " + why2))
    return tot, viol, known


def finish(prop, tier, seed, t0, level, check, tot, viol, known, mcs, scenarios, assumptions, extra_cov=None, rule=None, kind="responder", extra_viol=0):
    replays = []
    for i, (sc, why) in enumerate(viol[:8]):   # a handful of replays is enough to act on
        replays.append(vlib.write_replay(prop, check, sc, why, seed, i, kind=kind))
    for k, sc in known:
        print("KNOWN-FINDING: property=%s %s" % (prop, k.get("what", "")))
    cov = {
        "states": max(1, sum(m["states"] for m in mcs) + tot["states"]),
        "transitions": max(1, sum(m["transitions"] for m in mcs) + tot["generated"]),
        "traces_validated_against_impl": tot["accepted"],
        "evaluations": max(1, tot["events"]),
        "distinct_nontrivial": tot["exercised"],
        "rule": rule or ("scenarios are generated from VERIF_SEED, executed on the real code built from /repo's working tree and "
                         "every recorded event is validated by TLC against the specification with Check=%s; an event is non-trivial "
                         "when it reaches the antecedent of the property (counted by the monitor, TLCSet register)" % ",".join(sorted(check))),
        "samples": [{"scenario": sc.name, "first_lines": sc.lines[:6]} for sc in scenarios[:3]],
        "model_checking": mcs,
        "trace_states": tot["states"],
        "scenarios": len(scenarios),
        "known_findings_seen": [k.get("what", "") for k, _ in known],
        "exhaustive": False,
    }
    if extra_cov:
        cov.update(extra_cov)
    vlib.write_evidence(prop, tier, seed, level, cov, assumptions, time.time() - t0, len(viol) + extra_viol)
    for p in replays:
        print("VIOLATION property=%s replay=%s" % (prop, p))
    log("%s: %d scenarios, %d events validated, %d exercised, %d violation(s), %d known, %.1fs"
        % (prop, len(scenarios), tot["events"], tot["exercised"], len(viol) + extra_viol, len(known), time.time() - t0))
    return 1 if (viol or extra_viol) else 0


ASSUME_COMMON = [
    "the verification port (harness/vport.c) is the only environment of the core: closed world at lltdPort.h",
    "TLC 1.8 and the TLA+ specifications in /verif/spec are the oracle; the wire layout in Wire.tla is written from MS-LLTD",
    "clang 14 ASan/UBSan build of /repo's working tree with -DLLTD_VERIF_HOOKS, never -DLLTD_TESTING",
    "interface MTU in [576, 9216] (the range the property list names) for sessions that involve a Hello; down to 54 octets for sessions that do not",
]


MC_GENERAL = ("ResponderMC.tla", "ResponderMC.cfg")
MC_IMPL = ("ResponderImpl.tla", "ResponderImpl.cfg")


def responder_check(prop, tier, seed, t0, check, scenarios, mc=(), level="model_checking", assumptions=(), san="asan", extra_cov=None):
    work = vlib.Work(prop)
    binp = vlib.build_responder(san)
    mcs = [mc_step(work, m, c, scope=1 if tier == "quick" else 2) for m, c in mc]
    tot, viol, known = run_campaign(prop, check, scenarios, seed, work, binp)
    rc = finish(prop, tier, seed, t0, level, check, tot, viol, known, mcs, scenarios, ASSUME_COMMON + list(assumptions), extra_cov)
    if rc == 0:
        work.cleanup()
    return rc


def lemma_step(work, invs, module="Lemmas.tla"):
    """Apalache over unbounded integers; a tool failure is recorded, not fatal (the closed form is
    also cross-checked by TLC on the range its integers allow)."""
    done = []
    for inv in invs:
        od = work.path("apalache-" + inv)
        jt = work.path("apalache-jtmp")
        os.makedirs(jt, exist_ok=True)
        rc, so, se = vlib.sh(["apalache-mc", "check", "--length=1", "--inv=" + inv, "--out-dir=" + od, module], timeout=300, cwd=work.dir,
                             env={"TMPDIR": jt})      # the launcher makes its own SANY* temp dir with mktemp -t
        ok = "The outcome is: NoError" in so
        done.append({"lemma": inv, "discharged": ok, "tool": "apalache-mc 0.58 --length=1", "note": "" if ok else (so + se)[-300:]})
        if "The outcome is: Error" in so:
            raise Infra("lemma %s is FALSE according to Apalache" % inv)
    return done


def must_violate(work, module, cfg, what):
    """vacuity guard: this configuration states that something is unreachable and must be refuted"""
    r = vlib.tlc_run(work.dir, module, work.path(cfg), workers=4, timeout=300)
    if what not in r["out"]:
        raise Infra("vacuity guard %s/%s was not refuted: %s" % (module, cfg, r["out"][-500:]))
    return {"module": module, "cfg": cfg + " (reachability, refuted as required)", "states": r["distinct"], "transitions": r["generated"]}


def automata_check(prop, tier, seed, t0, check, scenarios, mc=(), level="model_checking", assumptions=(), extra_cov=None, pre_mcs=()):
    work = vlib.Work(prop)
    binp = vlib.build_automata("asan")
    mcs = list(pre_mcs(work)) if pre_mcs else []
    mcs += [mc_step(work, m, c, scope=1 if tier == "quick" else 2) for m, c in mc]
    tot, viol, known = run_campaign(prop, check, scenarios, seed, work, binp, module="AutomataTrace.tla")
    ass = ASSUME_COMMON + list(assumptions)
    if vlib.GLUE_FALLBACK_USED[0]:
        ass.append("anchors of the Darwin frame path not found in os/darwin/daemon/darwin-main.c: transcription harness/glue_fallback.inc used")
    else:
        ass.append("the frame path of the Darwin daemon is extracted textually from os/darwin/daemon/darwin-main.c of the working tree and compiled against a shim")
    rc = finish(prop, tier, seed, t0, level, check, tot, viol, known, mcs, scenarios, ass, extra_cov, kind="automata")
    if rc == 0:
        work.cleanup()
    return rc


# =========================================================================== properties
def c01(prop, tier, seed, t0):
    import acampaigns
    work = vlib.Work(prop)
    binp = vlib.build_responder("asan")
    mcs = [mc_step(work, "BoundsMC.tla", "BoundsMC.cfg", scope=1 if tier == "quick" else 2)]
    scs = campaigns.campaign_c01(seed, tier)
    tot, viol, known = run_campaign(prop, {"C02"}, scs, seed, work, binp)
    # the receive loops also run the classifier's session table, the engines and the tick on every frame: the
    # automata side under the same sanitizers (tables at and past capacity, long schedules through the Darwin
    # frame flow, two interfaces) - a trace that stops short of its script is a crash
    abin = vlib.build_automata("asan")
    c16 = acampaigns.campaign_c16(seed, tier)
    ascs = c16[:6] + [x for x in c16 if x.name.startswith(("c16-full", "c16-expiry"))] + acampaigns.campaign_c12(seed, tier)[:8] \
        + [acampaigns.sc_two_interfaces("c01-twoif", seed)]
    atot, aviol, _ak = run_campaign(prop, set(), ascs, seed, work, abin, module="AutomataTrace.tla")
    areplays = [vlib.write_replay(prop, set(), sc, why, seed, 300 + i, kind="automata") for i, (sc, why) in enumerate(aviol[:4])]
    for rp in areplays:
        print("VIOLATION property=%s replay=%s" % (prop, rp))
    tot["events"] += atot["events"]
    rc = finish(prop, tier, seed, t0, "exploration", {"C02"}, tot, viol, known, mcs, scs + ascs, ASSUME_COMMON + [
        "memory safety and UB-freedom are observed by ASan/UBSan (-fno-sanitize-recover) on the behaviours the "
        "generators produce, not proved; the bounds logic is model-checked (ResponderMC ReadExtent)",
        "every frame goes through all three receive entry points: derive_session_event, parseFrame, "
        "lltd_esp32_handle_frame (exact-length heap copy), followed by automata_tick; the session table, the engines and the "
        "Darwin frame flow are driven by the automata driver under the same sanitizers",
        "the recorded trace must be complete and every transmitted frame well-formed and within the solicited bounds (Check=C02)"],
        extra_viol=len(aviol))
    if rc == 0:
        work.cleanup()
    return rc


def with_g1(scs, seed, tier, quick_limit, thorough_limit=40000):
    import g1
    g, info = g1.transition_scenarios(seed, limit=quick_limit if tier == "quick" else thorough_limit, scope=1)
    w = g1.small_alphabet_walks(seed, 150 if tier == "quick" else 3000)
    info["small_alphabet_walks"] = len(w)
    if tier == "thorough":
        # the larger universe (15 694 mechanism states, 860 k transitions): a sample of its transition cover
        g2, info2 = g1.transition_scenarios(seed + 1, limit=30000, scope=2)
        info["scope2"] = info2
        g = g + g2
    return scs + g + w, {"g1_transition_cover": info}


def msan_pass(prop, scenarios, seed):
    """Run the scenarios once more under MemorySanitizer with fresh allocations left uninitialised:
    the port checks every transmitted byte with __msan_check_mem_is_initialized.  -> [(scenario, why)]"""
    work = vlib.Work(prop + "msan")
    binp = vlib.build_responder("msan")
    bad = []

    def one(t):
        idx, scs = t
        res = []
        todo = list(scs)
        while todo:
            text, spans = vlib.assemble(todo)
            sp, tp = work.path("m%d.script" % idx), work.path("m%d.ndjson" % idx)
            with open(sp, "w") as f:
                f.write(text)
            rc, err = vlib.run_harness(binp, sp, tp, env={"MSAN_OPTIONS": "halt_on_error=1"})
            if rc == 0:
                break
            last = vlib.last_line_of_trace(tp)
            ln = (last or {}).get("ln", 0)
            sc = vlib.scenario_at(spans, min(ln + 1, spans[-1][1])) or todo[-1]
            msg = [l for l in err.split("\n") if "MemorySanitizer" in l or (os.path.realpath(vlib.REPO).rstrip("/") + "/") in l][:4]
            res.append((sc, "MemorySanitizer: " + " | ".join(x.strip() for x in msg)[:400]))
            todo = [s for s in todo if s is not sc]
            if len(res) >= 3:
                break
        return res

    for r in vlib.parallel(one, list(enumerate(vlib.shard(scenarios, NSHARDS)))):
        bad += r
    if not bad:
        work.cleanup()
    return bad


def c02(prop, tier, seed, t0):
    scs = campaigns.campaign_c02(seed, tier)
    mbad = msan_pass(prop, scs, seed)
    replays = [vlib.write_replay(prop, {"C02", "EQ"}, sc, why, seed, 200 + i, kind="responder-msan") for i, (sc, why) in enumerate(mbad[:5])]
    for p in replays:
        print("VIOLATION property=%s replay=%s" % (prop, p))
    rc = responder_check(prop, tier, seed, t0, {"C02", "EQ"}, scs, mc=[MC_GENERAL],
                         assumptions=["determinism clause: twin interfaces with fresh-allocation fill 0xA5 / 0x5A must transmit identical bytes; "
                                      "the same scenarios run a second time under MemorySanitizer with fresh allocations left uninitialised and "
                                      "every transmitted byte checked with __msan_check_mem_is_initialized"],
                         extra_cov={"msan_scenarios": len(scs), "msan_reports": len(mbad)})
    return 1 if (rc or mbad) else 0


def c03(prop, tier, seed, t0):
    scs, cov = with_g1(campaigns.campaign_c03(seed, tier), seed, tier, 300)
    return responder_check(prop, tier, seed, t0, {"C03", "SNAP"}, scs, mc=[MC_IMPL], extra_cov=cov)


def c05(prop, tier, seed, t0):
    scs, cov = with_g1(campaigns.campaign_c05(seed, tier), seed, tier, 1200, thorough_limit=None)   # thorough: every transition
    return responder_check(prop, tier, seed, t0, {"C05", "SNAP"}, scs, mc=[MC_GENERAL, MC_IMPL], extra_cov=cov)


def c04(prop, tier, seed, t0):
    # first sentence: the core encodes what the platform layer supplies (verification port);
    # second sentence: the real Linux platform layer derives it from the interface record
    work = vlib.Work(prop)
    binp = vlib.build_responder("asan")
    scs = campaigns.campaign_c04(seed, tier)
    tot, viol, known = run_campaign(prop, {"C04"}, scs, seed, work, binp)
    lscs = campaigns.campaign_c04_linux(seed, tier)
    lbin = vlib.build_linuxport("asan")
    tot2, viol2, known2 = run_campaign(prop, {"C04"}, lscs, seed, work, lbin, module="LinuxPort.tla")
    for k in tot:
        tot[k] += tot2[k]
    extra = [vlib.write_replay(prop, {"C04"}, sc, why, seed, 100 + i, kind="linuxport") for i, (sc, why) in enumerate(viol2[:8])]
    for p in extra:
        print("VIOLATION property=%s replay=%s" % (prop, p))
    rc = finish(prop, tier, seed, t0, "model_checking", {"C04"}, tot, viol, known + known2, [], scs + lscs, ASSUME_COMMON + [
        "second sentence: os/linux/lltd_port.c of the working tree is linked as the port with sendto/getifaddrs/freeifaddrs/gethostname/nanosleep/clock_gettime wrapped; "
        "TLC computes LinuxPort!Derive(record) and requires the Hello captured at sendto to carry exactly those attributes",
        "the performance-counter frequency and QoS characteristics are required to be present with their lengths and constant across the Hellos of an interface"],
        extra_cov={"linux_port_scenarios": len(lscs), "violations_linux_port": len(viol2)}, extra_viol=len(viol2))
    if rc == 0 and not viol2:
        work.cleanup()
    return 1 if (rc or viol2) else 0


def c06(prop, tier, seed, t0):
    scs, cov = with_g1(campaigns.campaign_c06(seed, tier), seed, tier, 400)
    return responder_check(prop, tier, seed, t0, {"C06", "SNAP"}, scs, mc=[MC_GENERAL, MC_IMPL], extra_cov=cov)


def c07(prop, tier, seed, t0):
    scs, cov = with_g1(campaigns.campaign_c07(seed, tier), seed, tier, 1200, thorough_limit=None)   # thorough: every transition
    mc = [MC_GENERAL, MC_IMPL] + ([("ResponderLive.tla", "ResponderLive.cfg")] if tier == "thorough" else [])
    return responder_check(prop, tier, seed, t0, {"C07", "SNAP"}, scs, mc=mc, extra_cov=cov)


def c08(prop, tier, seed, t0):
    return responder_check(prop, tier, seed, t0, {"C08"}, campaigns.campaign_c08(seed, tier), mc=[("LargeTlvMC.tla", "LargeTlvMC.cfg"), MC_IMPL])


def c09(prop, tier, seed, t0):
    import g1
    hists, info = g1.state_cover_histories(seed, limit=600 if tier == "quick" else None)
    scs = campaigns.campaign_c09(seed, tier) + campaigns.c09_from_histories(hists, seed)
    return responder_check(prop, tier, seed, t0, {"C09", "EQ", "SNAP"}, scs, mc=[MC_GENERAL], extra_cov={"g1_state_cover": info})


def c10(prop, tier, seed, t0):
    work0 = vlib.Work(prop + "n")
    pre = [must_violate(work0, "NetworkMC.tla", "NetworkMC-mapper.cfg", "Invariant PeerObserves is violated"),
           must_violate(work0, "NetworkMC.tla", "NetworkMC-bcast.cfg", "Invariant PeerObserves is violated")]
    work0.cleanup()
    return responder_check(prop, tier, seed, t0, {"C10", "C06"}, campaigns.campaign_c10(seed, tier), mc=[("NetworkMC.tla", "NetworkMC-dst.cfg")],
                           extra_cov={"network_model_refuted_alternatives": pre})


def c18(prop, tier, seed, t0):
    # pass 1: fault-free run of the corpus to count the allocations / transmits of every target
    work = vlib.Work(prop + "m")
    binp = vlib.build_responder("asan")
    counts = {}
    for sc in campaigns.campaign_c18_measure():
        text, spans = vlib.assemble([sc])
        sp, tp = work.path("m.script"), work.path("m.ndjson")
        with open(sp, "w") as f:
            f.write(text)
        rc, err = vlib.run_harness(binp, sp, tp)
        if rc != 0:
            raise Infra("fault-free corpus run failed for %s: %s" % (sc.name, err[-500:]))
        want = sc.meta["target_line"] + 1     # + MARK line
        with open(tp) as f:
            for line in f:
                ev = json.loads(line)
                if ev.get("e") == "req" and ev.get("ln") == want and ev.get("ifc") == 1:
                    counts[sc.name] = (ev["na"], ev["ns"])
    work.cleanup()
    scs = campaigns.campaign_c18(seed, tier, counts)
    check = {"C18", "C02", "C19", "EQ"}
    work = vlib.Work(prop)
    tot, viol, known = run_campaign(prop, check, scs, seed, work, binp)
    # the automata constructors with the k-th allocation failing (automata driver)
    import acampaigns
    ctor = acampaigns.campaign_c18_ctor()
    abin = vlib.build_automata("asan")
    tot2, viol2, known2 = run_campaign(prop, {"C18"}, ctor, seed, work, abin, module="AutomataTrace.tla")
    for k in tot:
        tot[k] += tot2[k]
    replays = [vlib.write_replay(prop, {"C18"}, sc, why, seed, 100 + i, kind="automata") for i, (sc, why) in enumerate(viol2)]
    for p in replays:
        print("VIOLATION property=%s replay=%s" % (prop, p))
    rc = finish(prop, tier, seed, t0, "fault_enumeration", check, tot, viol, known + known2, [], scs + ctor, ASSUME_COMMON + [
        "fault plans: k-th allocation (every k up to the fault-free count + 1), every single transmit, all transmits, getter subsets, per corpus request; "
        "constructors: init_automata_mapping/session/enumeration and session_table_create with allocation k = 0..3 failing",
        "an MTU getter failure is only injected on interfaces whose MTU is the documented fallback 1500"],
        extra_cov={"fault_free_counts": {k: list(v) for k, v in sorted(counts.items())}, "constructor_plans": len(ctor),
                   "violations_constructors": len(viol2)}, extra_viol=len(viol2))
    if rc == 0 and not viol2:
        work.cleanup()
    return 1 if (rc or viol2) else 0


def c19(prop, tier, seed, t0):
    return responder_check(prop, tier, seed, t0, {"C19"}, campaigns.campaign_c19(seed, tier))


def c11(prop, tier, seed, t0):
    import acampaigns
    return automata_check(prop, tier, seed, t0, {"C11"}, acampaigns.campaign_c11(seed, tier))


def c12(prop, tier, seed, t0):
    import acampaigns
    return automata_check(prop, tier, seed, t0, {"C12"}, acampaigns.campaign_c12(seed, tier), mc=[("TickPacing.tla", "TickPacing.cfg")],
                          pre_mcs=lambda w: [must_violate(w, "TickPacing.tla", "TickPacingReach.cfg", "Invariant NeverSends is violated"),
                                             # the exact model of tick and frame flow (bound to the code by XTICK) satisfies C12 too
                                             sim_step(w, "TickExactMC.tla", "TickExactReach.cfg", 2000, 80, seed, must="Invariant NeverTwice is violated"),
                                             sim_step(w, "TickExactMC.tla", "TickExactMC.cfg", 4000 if tier == "quick" else 100000, 80 if tier == "quick" else 150, seed)])


def c13(prop, tier, seed, t0):
    import acampaigns
    lem = []
    return automata_check(prop, tier, seed, t0, {"C13"}, acampaigns.campaign_c13(seed, tier), mc=[("BandMC.tla", "BandMC.cfg")],
                          pre_mcs=lambda w: (lem.extend(lemma_step(w, ["ClosedForm", "Monotone", "Range"])) or []),
                          extra_cov={"lemmas": lem})


def amc(tier):
    return [("AutomataMC.tla", "AutomataMCq.cfg" if tier == "quick" else "AutomataMC.cfg")]


def c14(prop, tier, seed, t0):
    import acampaigns
    return automata_check(prop, tier, seed, t0, {"C14"}, acampaigns.campaign_c14(seed, tier), mc=amc(tier))


def c15(prop, tier, seed, t0):
    import acampaigns
    return automata_check(prop, tier, seed, t0, {"C15"}, acampaigns.campaign_c15(seed, tier))


def c16(prop, tier, seed, t0):
    import acampaigns
    return automata_check(prop, tier, seed, t0, {"C16"}, acampaigns.campaign_c16(seed, tier), mc=amc(tier))


# --------------------------------------------------------------------------- C17
def _registry_cfg(work, name, threads, calls, locked, extra):
    p = work.path(name)
    with open(p, "w") as f:
        f.write("SPECIFICATION Spec\nCONSTANTS Threads = {%s}\n          Calls = %d\n          Locked = %s\n%sCHECK_DEADLOCK FALSE\n"
                % (",".join(str(i) for i in range(1, threads + 1)), calls, "TRUE" if locked else "FALSE", extra))
    return p


def _registry_schedules(work, threads, calls, locked):
    cfg = _registry_cfg(work, "dump-%d-%d-%d.cfg" % (threads, calls, locked), threads, calls, locked, "INVARIANT DumpTerminal\n")
    r = vlib.tlc_run(work.dir, "Registry.tla", cfg, workers=1, timeout=600)
    if r["rc"] != 0:
        raise Infra("Registry schedule dump failed:\n" + r["out"][-2000:])
    scheds = []
    for m in re.finditer(r'<<"SCHED", "(.*)">>', r["out"]):
        scheds.append(json.loads(m.group(1).replace('\\"', '"')))
    return scheds, r


def _tsan_reports(err):
    """-> list of (function, location) per ThreadSanitizer report, from frames inside /repo"""
    reps = []
    root = re.escape(os.path.realpath(vlib.REPO).rstrip("/") + "/")      # the tree the binary was built from
    for block in err.split("WARNING: ThreadSanitizer:")[1:]:
        funcs = re.findall(r"#\d+ (\S+) (" + root + r"\S+?)(?::\d+)*? ", block)
        top = funcs[0][0] if funcs else "?"
        loc = "?"
        m = re.search(r"Location is global '([^']+)'", block)
        if m:
            loc = "global " + m.group(1)
        elif "Location is heap block" in block:
            allocs = re.findall(r"#\d+ (\S+) " + root, block.split("Location is heap block")[1])
            loc = "heap block allocated in " + (allocs[0] if allocs else "?")
        kind = block.strip().split("\n")[0].strip()
        infuncs = sorted(set(f for f, _ in funcs))
        reps.append({"kind": kind, "top": top, "loc": loc, "funcs": infuncs})
    return reps


def _known_c17(sig_kind, detail):
    for k in vlib.load_known_findings():
        if k.get("property") == "C17" and k.get("status") == "open" and k.get("signature", {}).get("kind") == sig_kind:
            sig = k["signature"]
            if sig_kind == "tsan-race":
                # the record being linked is the only heap object lltd_state_for_iface touches; TSan does not
                # always recover the allocation stack, so any heap block counts when the racing access itself
                # is inside that function
                if detail["top"] == sig.get("function") and \
                        (detail["loc"] in sig.get("locations", []) or detail["loc"].startswith("heap block")):
                    return k
            elif sig_kind == "schedule":
                return k
    return None


def c17(prop, tier, seed, t0):
    import random
    vlib.PRIMARY[0] = prop
    work = vlib.Work(prop)
    viol = []      # (why, replay path)
    known = {}
    mcs = []
    os.makedirs(os.path.join(vlib.OUT, "replays"), exist_ok=True)

    # (a1) the design: Registry as coded (no lock) vs with a lock
    cfg = _registry_cfg(work, "reg-unlocked.cfg", 2, 2, False, "INVARIANT NoSharedRecord NoLostState\n")
    r = vlib.tlc_run(work.dir, "Registry.tla", cfg, workers=4, timeout=600)
    model_loses = "Invariant NoLostState is violated" in r["out"]
    if "Invariant NoSharedRecord is violated" in r["out"]:
        raise Infra("Registry model violates NoSharedRecord: specification error")
    mcs.append({"module": "Registry.tla", "cfg": "unlocked 2x2", "states": r["distinct"], "transitions": r["generated"],
                "result": "NoLostState violated (lost update)" if model_loses else "holds"})
    cfgl = _registry_cfg(work, "reg-locked.cfg", 2 if tier == "quick" else 3, 2, True, "INVARIANT NoSharedRecord NoLostState\n")
    mcs.append(mc_step(work, "Registry.tla", "reg-locked.cfg", workers=4))

    # (a2) every maximal schedule of the model forced through the yield hooks on real threads
    plans = [(2, 2)] if tier == "quick" else [(2, 2), (2, 3), (3, 1)]
    binp = vlib.build_registry("asan")
    nsched = 0
    matched = 0
    lost_known = 0
    for threads, calls in plans:
        scheds, rr = _registry_schedules(work, threads, calls, False)
        mcs.append({"module": "Registry.tla", "cfg": "dump %dx%d" % (threads, calls), "states": rr["distinct"], "transitions": rr["generated"]})
        lines = ["THREADS %d" % threads, "CALLS %d" % calls]
        for sc in scheds:
            lines.append("SCHED " + " ".join(str(st[0]) for st in sc["steps"]))
        sp, tp = work.path("sched-%d-%d.script" % (threads, calls)), work.path("sched-%d-%d.ndjson" % (threads, calls))
        with open(sp, "w") as f:
            f.write("\n".join(lines) + "\n")
        rc, so, se = vlib.sh([binp, "sched", sp, tp], timeout=900, env={"ASAN_OPTIONS": "detect_leaks=0"})
        if rc != 0:
            rp = os.path.join(vlib.OUT, "replays", "C17-%s-sched-%d-%d.script" % (seed, threads, calls))
            with open(rp, "w") as f:
                f.write("# replay property=C17 kind=registry-sched check=C17\n" + "\n".join(lines) + "\n")
            viol.append(("forced schedules: harness rc=%s %s" % (rc, _san_summary(se)), rp))
            continue
        tcfg = _registry_cfg(work, "trace-%d-%d.cfg" % (threads, calls), threads, calls, False,
                             "CONSTRAINT AlongRecorded\nINVARIANT Conformance\nPOSTCONDITION AllMatched\n")
        rt = vlib.tlc_run(work.dir, "RegistryTrace.tla", tcfg, workers=1, env={"TRACE": tp}, timeout=900)
        m = re.search(r'<<"MATCHED", (\d+), "OF", (\d+)>>', rt["out"])
        if not m:
            raise Infra("RegistryTrace gave no verdict:\n" + rt["out"][-2000:])
        matched += int(m.group(1))
        nsched += int(m.group(2))
        mcs.append({"module": "RegistryTrace.tla", "cfg": "%dx%d" % (threads, calls), "states": rt["distinct"], "transitions": rt["generated"]})
        unmatched = re.findall(r'<<"UNMATCHED", (\d+)>>', rt["out"])
        if unmatched:
            log("DRIFT: %d forced schedule(s) behaved differently from Registry.tla (judged by their observed outcome only)" % len(unmatched))
        for tag, lns in (("LOST-NEW", re.findall(r'<<"LOST-NEW", (\d+)>>', rt["out"])), ("SHARED", re.findall(r'<<"SHARED", (\d+)>>', rt["out"]))):
            for ln in lns[:3]:
                rp = os.path.join(vlib.OUT, "replays", "C17-%s-%s-%s.script" % (seed, tag.lower(), ln))
                with open(rp, "w") as f:
                    f.write("# replay property=C17 kind=registry-sched check=C17\n%s\n%s\n%s\n" % (lines[0], lines[1], lines[int(ln) - 1]))
                viol.append(("%s: forced schedule lost or shared an interface record outside the recorded finding" % tag, rp))
        lk = re.findall(r'<<"LOST-KNOWN", (\d+)>>', rt["out"])
        if lk:
            k = _known_c17("schedule", None)
            if k:
                known[k["what"]] = k
                lost_known += len(lk)
            else:
                ln = lk[0]
                rp = os.path.join(vlib.OUT, "replays", "C17-%s-lost-%s.script" % (seed, ln))
                with open(rp, "w") as f:
                    f.write("# replay property=C17 kind=registry-sched check=C17\n%s\n%s\n%s\n" % (lines[0], lines[1], lines[int(ln) - 1]))
                viol.append(("forced schedule loses an interface record (overlapping first frames)", rp))

    # (a3) happens-before race detection, threads released together by a barrier
    tbin = vlib.build_registry("tsan")
    race_runs = 0
    race_reports = 0
    for mode in ("first", "warm"):
        for rep in range(3 if tier == "quick" else 20):
            tp = work.path("race-%s-%d.ndjson" % (mode, rep))
            nth = 2 if rep % 2 == 0 else 3
            rc, so, se = vlib.sh([tbin, "race", "60", tp, mode, str(nth)], timeout=300,
                                 env={"TSAN_OPTIONS": "halt_on_error=0 report_signal_unsafe=0 exitcode=0"})
            race_runs += 1
            if rc != 0:
                viol.append(("race run (%s) failed rc=%s: %s" % (mode, rc, se[-300:]), "bin/check-c17-race-%s" % mode))
                continue
            for d in _tsan_reports(se):
                race_reports += 1
                k = _known_c17("tsan-race", d) if mode == "first" else None
                if k:
                    known[k["what"]] = k
                    continue
                rp = os.path.join(vlib.OUT, "replays", "C17-%s-race-%s.script" % (seed, mode))
                with open(rp, "w") as f:
                    f.write("# replay property=C17 kind=registry-race check=C17\n# %s\nRACE %s %d\n" % (json.dumps(d), mode, nth))
                if not any(v[1] == rp for v in viol):
                    viol.append(("ThreadSanitizer: %s in %s on %s (mode %s)" % (d["kind"], d["top"], d["loc"], mode), rp))

    # (b) sequential interleavings: each interface's trace equals the trace its history produces alone
    rbin = vlib.build_responder("asan")
    rng = random.Random(seed)
    npairs = 12 if tier == "quick" else 300
    check = {"C02", "C03", "C05", "C06", "C07", "C08", "EQ"}
    seq_events = 0
    seq_ok = 0
    for pi in range(npairs):
        bad, n = _c17_pair(work, rbin, check, rng.randrange(1 << 30), pi)
        seq_events += n
        if bad:
            viol.append(bad)
        else:
            seq_ok += 1

    # (d) the periodic side: two interfaces of one process, ticks and frames interleaved; each interface's events are
    # validated as a trace of their own (pacing, table and engine of one interface are none of the other's business)
    import acampaigns
    abin = vlib.build_automata("asan")
    arng = random.Random(seed ^ 0xA17)
    ascs = [acampaigns.sc_two_interfaces("c17-twoif-%d" % i, arng.randrange(1 << 30)) for i in range(3 if tier == "quick" else 40)]
    acheck = {"C12", "C14", "C16"}
    atot, aviol, _aknown = run_campaign(prop, acheck, ascs, seed, work, abin, module="AutomataTrace.tla")
    for i, (sc, why) in enumerate(aviol[:4]):
        viol.append((why, vlib.write_replay(prop, acheck, sc, why, seed, 100 + i, kind="automata")))
    seq_events += atot["events"]

    # (e) preemption in the middle of a request: interface a's handler suspended at its k-th port call while
    # interface b serves a request from start to end (every request kind on either side)
    prng = random.Random(seed ^ 0xE17)
    pscs = [campaigns.sc_preempt("c17-preempt-%d" % i, prng.randrange(1 << 30), list(range(1, 19)),
                                 kinds=("discover", "query", "large", "emit", "probe")) for i in range(2 if tier == "quick" else 30)]
    pcheck = {"C02", "C05", "C06", "C07", "C08", "SNAP"}
    ptot, pviol, _pk = run_campaign(prop, pcheck, pscs, seed, work, vlib.build_responder("asan"))
    for i, (sc, why) in enumerate(pviol[:4]):
        viol.append((why, vlib.write_replay(prop, pcheck, sc, why, seed, 200 + i, kind="responder")))
    seq_events += ptot["events"]

    for what in known:
        print("KNOWN-FINDING: property=C17 %s" % what)
    for why, rp in viol[:8]:
        print("VIOLATION property=C17 replay=%s" % rp)
        log(why)
    cov = {"states": sum(m["states"] for m in mcs), "transitions": sum(m["transitions"] for m in mcs),
           "traces_validated_against_impl": matched + seq_ok,
           "evaluations": nsched + race_runs + seq_events, "distinct_nontrivial": nsched + seq_ok,
           "rule": "every maximal schedule of Registry.tla (threads x calls per plan) forced through the yield hooks of lltd_state_for_iface on real threads and matched "
                   "against the model by RegistryTrace.tla; TSan runs with threads released by a barrier (first frames racing / registry warmed up); pairs of random "
                   "histories interleaved on two interfaces, each interface validated against Responder with Check=%s and compared bytewise with its solo run; "
                   "two interfaces' ticks and frames interleaved in one process, each interface's events validated as its own trace by AutomataTrace" % ",".join(sorted(check)),
           "samples": [{"forced_schedules": nsched, "matched": matched, "lost_known": lost_known, "tsan_runs": race_runs, "tsan_reports": race_reports,
                        "sequential_pairs": npairs, "sequential_ok": seq_ok}],
           "model_checking": mcs, "known_findings_seen": sorted(known), "exhaustive": False}
    vlib.write_evidence(prop, tier, seed, "model_checking", cov, ASSUME_COMMON + [
        "thread schedules are forced at the yield hooks (registry.lookup / link / publish) added to lltd_state_for_iface under LLTD_VERIF_HOOKS; published records are never written again, "
        "so the list walk is atomic with the head read",
        "ThreadSanitizer (happens-before) makes the race verdict schedule-independent; reports are attributed by their top frame inside /repo"],
        time.time() - t0, len(viol))
    log("C17: %d forced schedules (%d matched, %d lost-known), %d race runs (%d reports), %d/%d sequential pairs ok, %d violation(s), %d known, %.1fs"
        % (nsched, matched, lost_known, race_runs, race_reports, seq_ok, npairs, len(viol), len(known), time.time() - t0))
    if not viol:
        work.cleanup()
    return 1 if viol else 0


def _c17_pair(work, rbin, check, seed, idx):
    """history h1 on interface 1 and h2 on interface 2, interleaved in one process; each also alone
    in its own process.  The three traces are zipped (interleaved event, then the solo event with
    eq=1 on a shadow interface id) and validated by TLC."""
    import random
    rng = random.Random(seed)
    mtu = rng.choice(campaigns.MTUS)
    mtus = [None, mtu, rng.choice([m for m in campaigns.MTUS_RESIDUES if m != mtu])]     # the interfaces differ in everything
    own = [None, campaigns.OWN, campaigns.PEER]
    hs = [None,
          campaigns.Hist(random.Random(seed + 1), own=own[1], mtu=mtus[1], wild=0.1).frames(40),
          campaigns.Hist(random.Random(seed + 2), own=own[2], mtu=mtus[2], wild=0.1).frames(40)]
    if idx % 6 == 3:
        # sessions whose frame sizes depend on the MTU (full QueryResp, chunked large property, long Emit)
        from framegen import probe, discover, query, query_large, emit
        for i in (1, 2):
            m = campaigns.M1
            hs[i] = [discover(0, m, gen=3, seq=1)] + [probe(campaigns.X, own[i], bytes([2, 0x35, 0, i, 0, j]), own[i]) for j in range(60)] \
                + [query(m, own[i], seq=2), query(m, own[i], seq=3), query(m, own[i], seq=4),
                   query_large(m, own[i], 0x0E, 0, seq=5), query_large(m, own[i], 0x0E, 600, seq=6),
                   emit(m, own[i], [(1, 0, own[i], campaigns.X)] * 45, seq=7)]
    if idx % 6 == 0:
        # one interface under heavy load (more observations than any per-interface limit), the other
        # running an ordinary session: a responder-wide budget or shared table would show here
        from framegen import probe, discover, query
        heavy = [probe(bytes([2, 0x31, 0, 0, i >> 8, i & 255]), own[1], bytes([2, 0x32, 0, 0, i >> 8, i & 255]), own[1]) for i in range(1100)]
        hs[1] = heavy
        hs[2] = [discover(0, campaigns.M1, gen=3, seq=1)] + [probe(campaigns.X, own[2], bytes([2, 0x33, 0, 0, 0, i]), own[2]) for i in range(5)] \
            + [query(campaigns.M1, own[2], seq=2), query(campaigns.M1, own[2], seq=3)]

    def script(which):
        from framegen import Script
        s = Script()
        campaigns.std_cfg(s)
        for i in (1, 2):
            if i in which:
                s.boot(i, own[i], mtu=mtus[i], wifi=i - 1, fill=0xA5, **campaigns.attrs_default(wifi=i - 1))
        if len(which) == 2:
            order = [1] * len(hs[1]) + [2] * len(hs[2])
            if idx % 6 != 0:
                random.Random(seed + 3).shuffle(order)
            pos = {1: 0, 2: 0}
            for i in order:
                s.rx(i, hs[i][pos[i]])
                pos[i] += 1
        else:
            i = which[0]
            for f in hs[i]:
                s.rx(i, f)
        return s.text()

    traces = {}
    for name, which in (("both", [1, 2]), ("solo1", [1]), ("solo2", [2])):
        sp, tp = work.path("p%d-%s.script" % (idx, name)), work.path("p%d-%s.ndjson" % (idx, name))
        with open(sp, "w") as f:
            f.write(script(which))
        rc, err = vlib.run_harness(rbin, sp, tp)
        if rc != 0:
            rp = os.path.join(vlib.OUT, "replays", "C17-%d-pair-%s.script" % (seed, name))
            with open(rp, "w") as f:
                f.write("# replay property=C17 kind=responder check=%s\n" % ",".join(sorted(check)) + script(which))
            return ("interleaved histories: harness rc=%s %s" % (rc, _san_summary(err)), rp), 0
        with open(tp) as f:
            traces[name] = [json.loads(l) for l in f if l.strip()]
    solo = {1: [e for e in traces["solo1"] if e["e"] in ("boot", "req")], 2: [e for e in traces["solo2"] if e["e"] in ("boot", "req")]}
    ptr = {1: 0, 2: 0}
    merged = []
    for e in traces["both"]:
        if e["e"] not in ("boot", "req"):
            continue
        i = e["ifc"]
        merged.append(e)
        se = dict(solo[i][ptr[i]])
        ptr[i] += 1
        se["ifc"] = i + 2
        if se["e"] == "req":
            se["eq"] = 1
            for it in se["out"]:
                if it.get("k") == "t":
                    it["ifc"] = i + 2
        merged.append(se)
    merged.append({"e": "end", "ln": 0})
    mp = work.path("p%d-merged.ndjson" % idx)
    with open(mp, "w") as f:
        for e in merged:
            f.write(json.dumps(e) + "\n")
    v = vlib.validate_trace(work.dir, mp, check, tag="p%d" % idx)
    if v["accepted"]:
        for n in ("both", "solo1", "solo2"):
            os.remove(work.path("p%d-%s.ndjson" % (idx, n)))
        os.remove(mp)
        return None, v["events"]
    rp = os.path.join(vlib.OUT, "replays", "C17-%d-pair.script" % seed)
    with open(rp, "w") as f:
        f.write("# replay property=C17 kind=c17-pair check=%s seed=%d\n" % (",".join(sorted(check)), seed) + script([1, 2]))
    return ("interleaved histories: interface trace differs from its solo trace or from the specification (merged event %d)" % v["rejected_at"], rp), v.get("events", 0)


def xenum(prop, tier, seed, t0):
    """Extension beyond the listed properties (not registered in MANIFEST): the enumeration engine's
    transition table as coded, exhaustively, plus an informational diff against the documented table."""
    from vlib import Scenario
    lines = ["NEW"]
    for s in (0, 1, 2):
        for ev in range(-2, 11):
            lines.append("ESTEP %d %d 0" % (ev, s))
    work = vlib.Work(prop)
    r = vlib.tlc_run(work.dir, "EnumDocMC.tla", work.path("EnumDocMC.cfg"), workers=1, timeout=120)
    m = re.search(r"ENUM-DOC-VS-CODE.*?\{(.*?)\} >>", r["out"], re.S)
    log("documented vs coded enumeration table differs in cells (state, event, new-session-complete): %s"
        % (re.sub(r"\s+", " ", m.group(1)) if m else "?"))
    work.cleanup()
    return automata_check(prop, tier, seed, t0, {"XENUM"}, [Scenario("xenum-steps", lines)])


def xglue(prop, tier, seed, t0):
    """Extension beyond the listed properties (not registered): the documented frame-processing flow of the
    Darwin daemon - what a frame does to the session table and RepeatBand - against Automata!GlueTable /
    TickPacing, on the schedules of C12."""
    import acampaigns
    return automata_check(prop, tier, seed, t0, {"XGLUE", "C16"}, acampaigns.campaign_c12(seed, tier)[:40])


def xemb(prop, tier, seed, t0):
    """Extension beyond the listed properties (not registered): the embedded entry point
    lltd_esp32_handle_frame - length guard and raw-opcode feeding of the three automata."""
    import random
    from vlib import Scenario
    from framegen import header
    rng = random.Random(seed)
    scs = []
    for i in range(8):
        lines = ["NEW"]
        for _ in range(300):
            op = rng.choice([0, 1, 2, 3, 4, 6, 8, 9, 11, rng.randrange(256)])
            f = header(rng.choice([0, 1, 2]), op, bytes(6), bytes([2, 0x4B, 0, 0, 0, 1]), bytes(6), bytes([2, 0x4B, 0, 0, 0, 1]), 1) + bytes(8)
            ln = rng.choice([len(f), len(f), 32, 31, 18, 17, 0, rng.randrange(0, len(f) + 1)])
            lines.append("ESP %d %s" % (ln, f.hex()))
            if rng.random() < 0.3:
                lines.append("ADV %d" % rng.choice([0, 500, 1000, 2000, 5000, 6000, 31000]))
        scs.append(Scenario("xemb-%d" % i, lines))
    return automata_check(prop, tier, seed, t0, {"XEMB"}, scs)


def ximpl(prop, tier, seed, t0):
    """extension: recorded executions against Mechanism!MStep, state for state and frame for frame"""
    scs = (campaigns.campaign_c07(seed, tier) + campaigns.campaign_c05(seed, tier)[-40:] + campaigns.campaign_c06(seed, tier)
           + campaigns.campaign_c08(seed, tier)[:40] + campaigns.campaign_c03(seed, tier) + campaigns.campaign_c10(seed, tier)[:16]
           + campaigns.campaign_c02(seed, tier) + campaigns.campaign_c09(seed, tier)[:24] + campaigns.campaign_c19(seed, tier)
           + campaigns.campaign_c04(seed, tier)[-3:] + campaigns.campaign_c18_measure() + campaigns.campaign_c01(seed, tier)[:8])
    scs, cov = with_g1(scs, seed, tier, 600, thorough_limit=20000)
    return responder_check(prop, tier, seed, t0, {"XIMPL", "SNAP"}, scs, mc=[MC_IMPL], extra_cov=cov)


def xtlv(prop, tier, seed, t0):
    """extension: the property writers of lltdTlvOps.c that no Hello uses"""
    return responder_check(prop, tier, seed, t0, {"XTLV"}, campaigns.campaign_xtlv(seed, tier))


def xtick(prop, tier, seed, t0):
    """extension: automata_tick as a deterministic function, every field it leaves behind compared"""
    import acampaigns
    scs = acampaigns.campaign_c12(seed, tier) + acampaigns.campaign_c13(seed, tier)[-24:] + acampaigns.campaign_c14(seed, tier)[-30:]
    return automata_check(prop, tier, seed, t0, {"XTICK"}, scs)


REGISTRY = {"XTICK": xtick, "XTLV": xtlv, "XIMPL": ximpl, "XEMB": xemb, "XGLUE": xglue, "XENUM": xenum, "C17": c17, "C11": c11, "C12": c12, "C13": c13, "C14": c14, "C15": c15, "C16": c16, "C01": c01, "C02": c02, "C03": c03, "C04": c04, "C05": c05, "C06": c06, "C07": c07, "C08": c08, "C09": c09, "C10": c10, "C18": c18, "C19": c19}


# =========================================================================== replay
def replay(path):
    with open(path) as f:
        lines = f.read().split("\n")
    m = re.match(r"# replay property=(\S+) kind=(\S+) check=(\S*)(?: seed=(\d+))?", lines[0])
    if not m:
        raise Infra("not a replay file: " + path)
    prop, kind, check = m.group(1), m.group(2), set(x for x in m.group(3).split(",") if x)
    body = [l for l in lines if l and not l.startswith("#")]
    sc = Scenario("replay", body)
    work = vlib.Work("replay")
    vlib.PRIMARY[0] = prop
    if kind == "responder":
        binp = vlib.build_responder("asan")
        bad, why = confirm(work, binp, check, sc)
    elif kind == "automata":
        binp = vlib.build_automata("asan")
        bad, why = confirm(work, binp, check, sc, module="AutomataTrace.tla")
    elif kind == "responder-msan":
        r = msan_pass(prop, [sc], 0)
        bad, why = bool(r), (r[0][1] if r else "")
    elif kind == "linuxport":
        binp = vlib.build_linuxport("asan")
        bad, why = confirm(work, binp, check, sc, module="LinuxPort.tla")
    elif kind == "registry-sched":
        binp = vlib.build_registry("asan")
        threads = int([l for l in body if l.startswith("THREADS")][0].split()[1])
        calls = int([l for l in body if l.startswith("CALLS")][0].split()[1])
        sp, tp = work.path("r.script"), work.path("r.ndjson")
        with open(sp, "w") as f:
            f.write("\n".join(body) + "\n")
        rc, so, se = vlib.sh([binp, "sched", sp, tp], timeout=600, env={"ASAN_OPTIONS": "detect_leaks=0"})
        if rc != 0:
            bad, why = True, "harness rc=%s %s" % (rc, _san_summary(se))
        else:
            tcfg = _registry_cfg(work, "r.cfg", threads, calls, False, "CONSTRAINT AlongRecorded\nINVARIANT Conformance\nPOSTCONDITION AllMatched\n")
            rt = vlib.tlc_run(work.dir, "RegistryTrace.tla", tcfg, workers=1, env={"TRACE": tp}, timeout=600)
            tags = re.findall(r'<<"(LOST-NEW|LOST-KNOWN|SHARED)", (\d+)>>', rt["out"])
            bad, why = bool(tags), "outcomes: %s" % tags
    elif kind == "registry-race":
        tbin = vlib.build_registry("tsan")
        rl = [l for l in body if l.startswith("RACE")][0].split()
        rc, so, se = vlib.sh([tbin, "race", "60", work.path("r.ndjson"), rl[1], rl[2]], timeout=300,
                             env={"TSAN_OPTIONS": "halt_on_error=0 report_signal_unsafe=0 exitcode=0"})
        reps = _tsan_reports(se)
        bad, why = bool(reps), json.dumps(reps[:3])
    elif kind == "c17-pair":
        rbin = vlib.build_responder("asan")
        res, n = _c17_pair(work, rbin, check, int(m.group(4)), 0)
        bad, why = (res is not None), (res[0] if res else "")
    else:
        raise Infra("unknown replay kind " + kind)
    if bad:
        print("VIOLATION property=%s replay=%s" % (prop, path))
        log(why)
        return 1
    work.cleanup()
    log("replay accepted")
    return 0
