"""Scenario generators (script side).  Everything random is seeded by VERIF_SEED.

Scenarios are self-contained: CFG + IF lines first, then requests.  The monitors re-parse
the bytes that were actually delivered, so a bug here changes what is tested, never what
is believed.
"""
import random

from framegen import *
from vlib import Scenario

OWN = mac(0x02AA00000001)
PEER = mac(0x02AA00000002)
M1 = mac(0x02BB000000A1)
M2 = mac(0x02BB000000A2)
X = mac(0x02CC000000C3)
BR = mac(0x02DD000000D4)   # a bridge / access point in front of a mapper
STATIONS = [M1, M2, X, PEER]

MTUS = [576, 1500, 9216]


def rnd_mac(rng):
    return bytes([rng.choice([0x02, 0x00, 0x06, 0xFE])] + [rng.randrange(256) for _ in range(5)])


def attrs_default(rng=None, wifi=0):
    a = dict(ipv4=bytes([192, 168, 1, 7]), ipv6=bytes.fromhex("fe80000000000000021122fffe334455"),
             speed=1000000, flags=0x2000, iftype=6)
    if wifi:
        a.update(iftype=71, wmode=1, bssid=mac(0x02EE00000009), ssid=b"verif-net", rate=108, rssi=-57)
    return a


def std_cfg(s, icon=(3000, 7), name=(20, 3), hwid="PCI\\VEN_8086".encode("utf-16le"), host=b"verif-host"):
    s.cfg(host=host, icon=icon, name=name, hwid=hwid)


def new_script(mtu=1500, wifi=0, twins=False, own=OWN, **cfgkw):
    s = Script()
    std_cfg(s, **cfgkw)
    s.boot(1, own, mtu=mtu, wifi=wifi, fill=0xA5, **attrs_default(wifi=wifi))
    if twins:
        s.boot(2, own, mtu=mtu, wifi=wifi, fill=0x5A, **attrs_default(wifi=wifi))
    return s


# --------------------------------------------------------------------------- random histories
class Hist:
    """Random frame history respecting (mostly) the domain restriction of C05: commands come
    from the active mapper or while none is active; `wild' adds strangers' commands, noise and
    frames of other services."""

    def __init__(self, rng, own=OWN, mtu=1500, wild=0.15):
        self.rng = rng
        self.own = own
        self.mtu = mtu
        self.wild = wild
        self.mapper = None      # python-side guess, only steers generation
        self.seq = rng.randrange(1, 0xFFFF)
        self.nobs = 0

    def nseq(self):
        self.seq = 1 if self.seq >= 0xFFFF else self.seq + 1
        return self.seq

    def station(self):
        return self.rng.choice(STATIONS)

    def frames(self, n):
        out = []
        for _ in range(n):
            out.append(self.one())
        return out

    def commander(self):
        r = self.rng
        if self.mapper is not None and r.random() > self.wild:
            return self.mapper
        return self.station()

    def one(self):
        r = self.rng
        k = r.random()
        own = self.own
        if k < 0.22:      # Discover
            src = self.station() if (self.mapper is None or r.random() < 0.5) else self.mapper
            tos = r.choice([0, 0, 0, 1])
            eth = src if r.random() < 0.7 else BR
            gen = r.choice([0, 1, 0xFFFF, r.randrange(65536)])
            st = [r.choice([own, PEER, X]) for _ in range(r.randrange(0, 4))]
            f = discover(tos, src, eth_src=eth, gen=gen, seq=r.randrange(65536), stations=st)
            if self.mapper is None:
                self.mapper = src
            return f
        if k < 0.30:      # Reset
            tos = r.choice([0, 0, 1])
            self.mapper = None
            if tos == 0:
                self.nobs = 0
            return reset(self.station(), tos=tos)
        if k < 0.50:      # Probe / Train observed
            src = r.choice([PEER, X, M1, rnd_mac(r)])
            dst = own if r.random() < 0.8 else PEER
            rd = own if r.random() < 0.8 else PEER
            self.nobs += 1
            return probe(src, dst, r.choice([src, PEER]), rd, train=r.random() < 0.4)
        if k < 0.62:      # Emit
            m = self.commander()
            n = r.choice([1, 1, 2, 3, r.randrange(1, 8)])
            descs = [(r.choice([0, 1]), r.choice([0, 1, 5, 255, r.randrange(256)]), r.choice([own, rnd_mac(r)]),
                      r.choice([PEER, X, rnd_mac(r)])) for _ in range(n)]
            if self.mapper is None:
                self.mapper = m
            return emit(m, own, descs, seq=self.nseq(), eth_src=m if r.random() < 0.8 else BR)
        if k < 0.74:      # Query
            m = self.commander()
            self.mapper = m
            self.nobs = 0
            return query(m, own, seq=self.nseq(), eth_src=m if r.random() < 0.8 else BR)
        if k < 0.86:      # QueryLargeTlv
            m = self.commander()
            if self.mapper is None:
                self.mapper = m
            typ = r.choice([0x0E, 0x11, 0x13, 0x0E, r.randrange(256)])
            off = r.choice([0, 0, 1, 1466, 2999, 3000, 3001, 20, 65535, r.randrange(65536)])
            return query_large(m, own, typ, off, seq=r.choice([0, self.nseq(), self.nseq()]), tos=r.choice([0, 0, 1]),
                               eth_src=m if r.random() < 0.8 else BR)
        if k < 0.92:      # heard Hello / ACK / other responder traffic
            src = r.choice([PEER, X])
            return r.choice([hello(r.choice([0, 1]), src, r.randrange(65536), M1, M1),
                             generic(0, OP_ACK, src, own, seq=r.randrange(65536)),
                             generic(0, OP_QUERYRESP, src, own, body=b"\x00\x00"),
                             generic(0, OP_CHARGE, self.commander(), own),
                             generic(0, OP_FLAT, src, own)])
        # other services / unknown opcodes
        tos = r.choice([2, 3, 0x7F, 0xFF, r.randrange(2, 256)])
        op = r.choice([0, 2, 6, 8, 0x0B, r.randrange(256)])
        return generic(tos, op, self.station(), own, seq=r.randrange(65536), body=bytes(r.randrange(256) for _ in range(r.randrange(0, 8))))


def mutate(rng, f, mtu):
    """valid frame -> mutated frame (bit flips, truncation, counters forced to boundary values)"""
    b = bytearray(f)
    k = rng.random()
    if k < 0.3 and len(b) > 0:
        for _ in range(rng.randrange(1, 4)):
            i = rng.randrange(len(b))
            b[i] ^= 1 << rng.randrange(8)
    elif k < 0.5 and len(b) > 2:
        del b[rng.randrange(1, len(b)):]
    elif k < 0.8 and len(b) >= 34:
        v = rng.choice([0, 1, 0xFFFF, (mtu - 34) // 14, (mtu - 34) // 14 + 1, (mtu - 34) // 20, (mtu - 36) // 6 + 1])
        b[32] = (v >> 8) & 0xFF
        b[33] = v & 0xFF
    else:
        b += bytes(rng.randrange(256) for _ in range(rng.randrange(1, 40)))
    return bytes(b[:mtu])


def noise(rng, mtu):
    n = rng.choice([0, 1, 13, 14, 31, 32, 33, 34, 35, 36, 46, 60, mtu - 1, mtu, rng.randrange(0, mtu + 1)])
    return bytes(rng.randrange(256) for _ in range(n))


# --------------------------------------------------------------------------- C02 / C03 / generic
def sc_history(name, seed, mtu=1500, wifi=0, n=40, wild=0.15, twins=False, mut=0.0, noi=0.0, fills=(0,)):
    rng = random.Random(seed)
    s = new_script(mtu=mtu, wifi=wifi, twins=twins)
    h = Hist(rng, mtu=mtu, wild=wild)
    ifcs = [1, 2] if twins else [1]
    for f in h.frames(n):
        x = rng.random()
        if x < noi:
            f = noise(rng, mtu)
        elif x < noi + mut:
            f = mutate(rng, f, mtu)
        s.rx(ifcs, f[:mtu], fill=rng.choice(fills))
    return Scenario(name, s.lines, {"seed": seed, "mtu": mtu, "wifi": wifi, "n": n})


def sc_generation_regression():
    """the history of tests/test_lltd_generation.c: Hellos heard with other generations and a
    Discover of the other service in between"""
    s = new_script()
    s.rx(1, discover(1, M1, gen=0x1111, seq=1))
    s.rx(1, hello(1, PEER, 0x2222, M1, M1))
    s.rx(1, hello(0, X, 0x3333, M1, M1))
    s.rx(1, discover(0, M1, gen=0x4444, seq=2))
    s.rx(1, discover(1, M1, gen=0x1111, seq=3))
    s.rx(1, discover(0, M1, gen=0, seq=4))
    s.rx(1, discover(1, M1, gen=0xFFFF, seq=5, eth_src=BR))
    s.rx(1, discover(0, M1, gen=0x5555, seq=6, eth_src=BR))
    return Scenario("generation-regression", s.lines)


def campaign_c03(seed, tier):
    rng = random.Random(seed)
    scs = [sc_generation_regression()]
    nh = 24 if tier == "quick" else 400
    for i in range(nh):
        scs.append(sc_history("c03-hist-%d" % i, rng.randrange(1 << 30), mtu=rng.choice(MTUS), wifi=i % 2, n=40, wild=0.1))
    # H: random (generation, xid, ToS, src, eth src) tuples, each on a released mapper
    for i in range(8 if tier == "quick" else 100):
        s = new_script(mtu=rng.choice(MTUS), wifi=rng.choice([0, 1]))
        for _ in range(60):
            src = rnd_mac(rng)
            eth = src if rng.random() < 0.5 else rnd_mac(rng)
            tos = rng.choice([0, 1])
            s.rx(1, discover(tos, src, eth_src=eth, gen=rng.choice([0, 1, 0xFFFF, 0x0100, 0x00FF, rng.randrange(65536)]),
                             seq=rng.randrange(65536), stations=[rnd_mac(rng) for _ in range(rng.randrange(0, 3))]))
            if rng.random() < 0.3:
                s.rx(1, hello(rng.choice([0, 1]), PEER, rng.randrange(65536), src, eth))
            s.rx(1, reset(src, tos=rng.choice([0, 1]) if rng.random() < 0.5 else tos))
        scs.append(Scenario("c03-tuples-%d" % i, s.lines))
    return scs


def campaign_c02(seed, tier):
    rng = random.Random(seed)
    scs = []
    n = 18 if tier == "quick" else 300
    for i in range(n):
        mtu = MTUS[i % 3]
        kind = i % 3
        scs.append(sc_history("c02-%s-%d" % (["valid", "mutated", "noise"][kind], i), rng.randrange(1 << 30), mtu=mtu,
                              wifi=(i // 3) % 2, n=36, wild=0.2, twins=True,
                              mut=[0.0, 0.5, 0.2][kind], noi=[0.0, 0.1, 0.6][kind],
                              fills=(0, 0xFF, 0x5A)))
    return scs


# --------------------------------------------------------------------------- C05
def sc_c05_sweep(name, pairs, active):
    """single-step sweep: for each (ToS, opcode): [Reset; (Discover M1); frame from X; Discover M2;
    Discover M1] - the two trailing Discovers read the mapper state back out"""
    s = new_script()
    for tos, op in pairs:
        s.rx(1, reset(M2))
        if active:
            s.rx(1, discover(0, M1, gen=7, seq=1))
        if op == OP_DISCOVER:
            f = discover(tos, X, gen=9, seq=2)
        elif op == OP_RESET:
            f = reset(X, tos=tos)
        elif op == OP_EMIT:
            f = emit(X, OWN, [(1, 0, OWN, PEER)], seq=3, tos=tos)
        elif op == OP_QUERY:
            f = query(X, OWN, seq=3, tos=tos)
        elif op == OP_QLT:
            f = query_large(X, OWN, 0x11, 0, seq=3, tos=tos)
        else:
            f = generic(tos, op, X, OWN, seq=3, body=bytes(8))
        s.rx(1, f)
        s.rx(1, discover(0, M2, gen=8, seq=4))
        s.rx(1, discover(0, M1, gen=7, seq=5))
    return Scenario(name, s.lines)


def campaign_c05(seed, tier):
    rng = random.Random(seed)
    scs = []
    if tier == "quick":
        pairs = [(t, o) for o in range(256) for t in (0, 1, 2, 3, 0x7F, 0xFF)] + [(t, o) for t in range(256) for o in (0, 8)]
    else:
        pairs = [(t, o) for t in range(256) for o in range(256)]
    chunk = 256
    for active in (0, 1):
        for i in range(0, len(pairs), chunk):
            scs.append(sc_c05_sweep("c05-sweep-%s-%d" % ("active" if active else "none", i // chunk), pairs[i:i + chunk], active))
    for i in range(16 if tier == "quick" else 300):
        scs.append(sc_history("c05-hist-%d" % i, rng.randrange(1 << 30), n=60, wild=0.0 if i % 2 else 0.2))
    return scs
