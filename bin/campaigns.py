"""Scenario generators (script side).  Everything random is seeded by VERIF_SEED.

Scenarios are self-contained: CFG + IF lines first, then requests.  The monitors re-parse
the bytes that were actually delivered, so a bug here changes what is tested, never what
is believed.
"""
import random

from framegen import *
from vlib import Scenario

OWN = mac(0x02AA00000001)
PEER = mac(0x02AA00000002)
M1 = mac(0x02BB000000A1)
M2 = mac(0x02BB000000A2)
X = mac(0x02CC000000C3)
BR = mac(0x02DD000000D4)   # a bridge / access point in front of a mapper
STATIONS = [M1, M2, X, PEER]

MTUS = [576, 1500, 9216]
# every residue of the MTU modulo the descriptor sizes (20: QueryResp, 14: Emit) occurs
MTUS_RESIDUES = list(range(576, 596)) + [1280, 1472, 1473, 1492, 1499, 1500, 1501, 9000, 9215, 9216]


def any_mtu(rng):
    return rng.choice(MTUS_RESIDUES) if rng.random() < 0.7 else rng.randrange(576, 9217)


def rnd_mac(rng):
    return bytes([rng.choice([0x02, 0x00, 0x06, 0xFE])] + [rng.randrange(256) for _ in range(5)])


def attrs_default(rng=None, wifi=0):
    a = dict(ipv4=bytes([192, 168, 1, 7]), ipv6=bytes.fromhex("fe80000000000000021122fffe334455"),
             speed=1000000, flags=0x2000, iftype=6)
    if wifi:
        a.update(iftype=71, wmode=1, bssid=mac(0x02EE00000009), ssid=b"verif-net", rate=108, rssi=-57)
    return a


def std_cfg(s, icon=(3000, 7), name=(20, 3), hwid="PCI\\VEN_8086".encode("utf-16le"), host=b"verif-host"):
    s.cfg(host=host, icon=icon, name=name, hwid=hwid)


def new_script(mtu=1500, wifi=0, twins=False, own=OWN, **cfgkw):
    s = Script()
    std_cfg(s, **cfgkw)
    s.boot(1, own, mtu=mtu, wifi=wifi, fill=0xA5, **attrs_default(wifi=wifi))
    if twins:
        s.boot(2, own, mtu=mtu, wifi=wifi, fill=0x5A, **attrs_default(wifi=wifi))
    return s


# --------------------------------------------------------------------------- random histories
class Hist:
    """Random frame history respecting (mostly) the domain restriction of C05: commands come
    from the active mapper or while none is active; `wild' adds strangers' commands, noise and
    frames of other services."""

    def __init__(self, rng, own=OWN, mtu=1500, wild=0.15):
        self.rng = rng
        self.own = own
        self.mtu = mtu
        self.wild = wild
        self.mapper = None      # python-side guess, only steers generation
        self.seq = rng.randrange(1, 0xFFFF)
        self.nobs = 0

    def nseq(self):
        if self.rng.random() < 0.08:      # representation boundaries of the 16-bit sequence number
            self.seq = self.rng.choice([1, 0xFF, 0x100, 0x7FFF, 0x8000, 0xFF00, 0xFFFE, 0xFFFF])
            return self.seq
        self.seq = 1 if self.seq >= 0xFFFF else self.seq + 1
        return self.seq

    def station(self):
        return self.rng.choice(STATIONS)

    def frames(self, n):
        out = []
        for _ in range(n):
            out.append(self.one())
        return out

    def commander(self):
        r = self.rng
        if self.mapper is not None and r.random() > self.wild:
            return self.mapper
        return self.station()

    def one(self):
        r = self.rng
        k = r.random()
        own = self.own
        if k < 0.22:      # Discover
            src = self.station() if (self.mapper is None or r.random() < 0.5) else self.mapper
            tos = r.choice([0, 0, 0, 1])
            eth = src if r.random() < 0.7 else BR
            gen = r.choice([0, 1, 0xFFFF, r.randrange(65536)])
            st = [r.choice([own, PEER, X]) for _ in range(r.randrange(0, 4))]
            f = discover(tos, src, eth_src=eth, gen=gen, seq=r.randrange(65536), stations=st)
            if self.mapper is None:
                self.mapper = src
            return f
        if k < 0.30:      # Reset
            tos = r.choice([0, 0, 1])
            self.mapper = None
            if tos == 0:
                self.nobs = 0
            return reset(self.station(), tos=tos)
        if k < 0.50:      # Probe / Train observed
            src = r.choice([PEER, X, M1, rnd_mac(r)])
            dst = own if r.random() < 0.8 else PEER
            rd = own if r.random() < 0.8 else PEER
            self.nobs += 1
            return probe(src, dst, r.choice([src, PEER]), rd, train=r.random() < 0.4)
        if k < 0.62:      # Emit
            m = self.commander()
            n = r.choice([1, 1, 2, 3, r.randrange(1, 8)])
            descs = [(r.choice([0, 1]), r.choice([0, 1, 5, 255, r.randrange(256)]), r.choice([own, rnd_mac(r)]),
                      r.choice([PEER, X, rnd_mac(r)])) for _ in range(n)]
            if self.mapper is None:
                self.mapper = m
            return emit(m, own, descs, seq=self.nseq(), eth_src=m if r.random() < 0.8 else BR)
        if k < 0.74:      # Query
            m = self.commander()
            self.mapper = m
            self.nobs = 0
            return query(m, own, seq=self.nseq(), eth_src=m if r.random() < 0.8 else BR)
        if k < 0.86:      # QueryLargeTlv
            m = self.commander()
            if self.mapper is None:
                self.mapper = m
            typ = r.choice([0x0E, 0x11, 0x13, 0x0E, r.randrange(256)])
            off = r.choice([0, 0, 1, 1466, 2999, 3000, 3001, 20, 65535, r.randrange(65536)])
            return query_large(m, own, typ, off, seq=r.choice([0, self.nseq(), self.nseq()]), tos=r.choice([0, 0, 1]),
                               eth_src=m if r.random() < 0.8 else BR)
        if k < 0.92:      # heard Hello / ACK / other responder traffic
            src = r.choice([PEER, X])
            return r.choice([hello(r.choice([0, 1]), src, r.randrange(65536), M1, M1),
                             generic(0, OP_ACK, src, own, seq=r.randrange(65536)),
                             generic(0, OP_QUERYRESP, src, own, body=b"\x00\x00"),
                             generic(0, OP_CHARGE, self.commander(), own),
                             generic(0, OP_FLAT, src, own)])
        # other services / unknown opcodes
        tos = r.choice([2, 3, 0x7F, 0xFF, r.randrange(2, 256)])
        op = r.choice([0, 2, 6, 8, 0x0B, r.randrange(256)])
        return generic(tos, op, self.station(), own, seq=r.randrange(65536), body=bytes(r.randrange(256) for _ in range(r.randrange(0, 8))))


def mutate(rng, f, mtu):
    """valid frame -> mutated frame (bit flips, truncation, counters forced to boundary values)"""
    b = bytearray(f)
    k = rng.random()
    if k < 0.3 and len(b) > 0:
        for _ in range(rng.randrange(1, 4)):
            i = rng.randrange(len(b))
            b[i] ^= 1 << rng.randrange(8)
    elif k < 0.5 and len(b) > 2:
        del b[rng.randrange(1, len(b)):]
    elif k < 0.8 and len(b) >= 34:
        v = rng.choice([0, 1, 0xFFFF, (mtu - 34) // 14, (mtu - 34) // 14 + 1, (mtu - 34) // 20, (mtu - 36) // 6 + 1])
        b[32] = (v >> 8) & 0xFF
        b[33] = v & 0xFF
    else:
        b += bytes(rng.randrange(256) for _ in range(rng.randrange(1, 40)))
    return bytes(b[:mtu])


def noise(rng, mtu):
    n = rng.choice([0, 1, 13, 14, 31, 32, 33, 34, 35, 36, 46, 60, mtu - 1, mtu, rng.randrange(0, mtu + 1)])
    return bytes(rng.randrange(256) for _ in range(n))



# --------------------------------------------------------------------------- time and churn families
GAPS = [0, 1, 9, 10, 11, 99, 100, 101, 999, 1000, 1001, 2250, 2255, 2559, 2560, 4810, 9999, 10000, 29999, 30000, 30001,
        59999, 60000, 60001, 120001, 600000, 3600000, 86400000]


def dilate(sc, seed, p=0.5, suffix="-slow"):
    """The same history with virtual time passing between the frames. The responder's frame path has no timers:
    what it does with a frame depends on the frames before it, never on how long ago they arrived, so every
    expectation stays what it was."""
    rng = random.Random(seed)
    out = []
    for ln in sc.lines:
        out.append(ln)
        if ln.startswith(("RX ", "RXALL ", "DRAIN ", "LDRAIN ", "PIPE ")) and rng.random() < p:
            out.append("ADV %d" % rng.choice(GAPS + [rng.randrange(0, 100000)]))
    return Scenario(sc.name + suffix, out, dict(sc.meta))


def with_slow(scs, seed, every=3, p=0.5):
    """appends a slowed-down twin of every `every'-th scenario"""
    rng = random.Random(seed ^ 0x510)
    return scs + [dilate(sc, rng.randrange(1 << 30), p) for i, sc in enumerate(scs) if i % every == 0]


def sc_churn(name, seed, mtu, rounds=5, all_entries=False, strangers=True):
    """Record churn: more observations than one QueryResp carries, with frames seen earlier (the newest, the
    oldest, any) arriving again before, between and after the partial drains, while strangers talk and time
    passes. Exercises the lifetime of every record the responder keeps."""
    rng = random.Random(seed)
    s = new_script(mtu=mtu)
    cap = (mtu - 34) // 20
    s.rx(1, discover(0, M1, gen=5, seq=1), all_entries=all_entries)
    seen = []
    seq = 10
    n = 0
    for r in range(rounds):
        k = rng.choice([cap + 1, cap + 2, cap + cap // 2, 2 * cap + 1, cap, 3])
        for i in range(k):
            rs = bytes([0x02, 0x71, (seed >> 8) & 0xFF, seed & 0xFF, n >> 8, n & 0xFF])
            n += 1
            f = probe(rs, OWN, rs, OWN, train=rng.random() < 0.4)
            seen.append(f)
            s.rx(1, f, all_entries=all_entries)
            x = rng.random()
            if x < 0.15:
                s.rx(1, seen[-1], all_entries=all_entries)
            elif x < 0.25:
                s.rx(1, rng.choice(seen), all_entries=all_entries)
            elif x < 0.28 and strangers:
                s.rx(1, rng.choice([discover(0, X, gen=9, seq=3), query(X, OWN, seq=77), discover(1, X, gen=4, seq=9),
                                    emit(X, OWN, [(1, 0, OWN, PEER)], seq=78)]), all_entries=all_entries)
            elif x < 0.31:
                s.adv(rng.choice(GAPS))
        # again just before the drain: the newest, the oldest of this round, any
        for f in (seen[-1], seen[-k], rng.choice(seen)):
            if rng.random() < 0.7:
                s.rx(1, f, all_entries=all_entries)
        for q in range(rng.choice([1, 1, 2, 4])):
            seq = rng.choice([seq + 1, seq + 1, rng.randrange(1, 0xFFF0), max(1, seq - rng.randrange(1, 500))])
            s.rx(1, query(M1, OWN, seq=seq), all_entries=all_entries)
            for f in (seen[-1], seen[-k], rng.choice(seen), rng.choice(seen[-k:])):
                if rng.random() < 0.5:
                    s.rx(1, f, all_entries=all_entries)
            if rng.random() < 0.3:
                rs = bytes([0x02, 0x72, (seed >> 8) & 0xFF, seed & 0xFF, n >> 8, n & 0xFF])
                n += 1
                f = probe(rs, OWN, rs, OWN)
                seen.append(f)
                s.rx(1, f, all_entries=all_entries)
        x = rng.random()
        if x < 0.15:
            s.rx(1, reset(M1), all_entries=all_entries)
            s.rx(1, seen[-1], all_entries=all_entries)
            s.rx(1, discover(0, M1, gen=5, seq=1), all_entries=all_entries)
        elif x < 0.3:
            s.drain(1, query(M1, OWN, seq=200 + r), 12)
    s.drain(1, query(M1, OWN, seq=300), 12)
    s.rx(1, query(M1, OWN, seq=301), all_entries=all_entries)
    return Scenario(name, s.lines, {"mtu": mtu, "seed": seed})


def sc_multihome(name, seed, n=120, probes=0.20):
    """Several interfaces served by one responder instance, each with its own mapper, its own traffic and long
    silences: what an interface retains is its own business whatever happens (or does not happen) on the others,
    and a topology Reset on it leaves its constant record only."""
    rng = random.Random(seed)
    s = Script()
    std_cfg(s, icon=(rng.choice([900, 3000]), 7))
    ids = [1, 2, 3]
    macs = {i: rnd_mac(rng) for i in ids}
    mp = {1: M1, 2: M2, 3: X}
    for i in ids:
        s.boot(i, macs[i], mtu=rng.choice([576, 1500, 1500, 9000]), wifi=i & 1, fill=0xA5, **attrs_default(wifi=i & 1))
    for i in ids:
        s.rx(i, reset(mp[i]))       # baseline: the record exists, nothing else
    seq = 1
    for _ in range(n):
        i = rng.choice(ids)
        own, m = macs[i], mp[i]
        seq += 1
        x = rng.random()
        p1 = 0.15 + probes
        if x < 0.15:
            f = discover(rng.choice([0, 0, 1]), m, gen=rng.randrange(1, 65536), seq=seq)
        elif x < p1:
            a = rnd_mac(rng)
            f = probe(a, own, a, own, train=rng.random() < 0.3)
        elif x < p1 + 0.10:
            f = query(m, own, seq=seq)
        elif x < p1 + 0.25:
            f = query_large(m, own, rng.choice([0x0E, 0x0E, 0x11, 0x13]), rng.choice([0, 0, 5, 899]), seq=seq, tos=rng.choice([0, 0, 1]))
        elif x < p1 + 0.30:
            f = emit(m, own, [(1, 0, own, PEER)], seq=seq)
        elif x < p1 + 0.35:
            f = reset(m, tos=1)
        elif x < p1 + 0.38:
            f = reset(m, tos=0)
        else:
            f = discover(1, m, gen=rng.randrange(1, 65536), seq=seq)
        s.rx(i, f)
        if rng.random() < 0.35:
            s.adv(rng.choice([1, 1000, 30000, 59999, 60000, 60001, 61000, 120000, 3600000]))
    for i in ids:
        s.rx(i, reset(mp[i]))
        s.rx(i, reset(mp[i]))
    return Scenario(name, s.lines)


def campaign_xtlv(seed, tier):
    rng = random.Random(seed)
    scs = []
    for i in range(12 if tier == "quick" else 200):
        s = Script()
        for _ in range(20):
            hw = rng.choice([b"", b"A\x00", bytes(range(1, 63)), bytes(range(1, 65)), bytes(rng.randrange(1, 256) for _ in range(rng.randrange(0, 65)))])
            s.cfg(host=b"h", icon=None, name=None, hwid=hw, uuid=rng.choice([None, bytes(rng.randrange(256) for _ in range(16)), bytes(16)]))
            wifi = rng.choice([0, 1])
            at = rnd_attrs(rng, wifi)
            at["phy"] = rng.choice([0, 1, 7, 0x100, 0xFFFF, 0x10000, 0x80000000, 0xFFFFFFFF, rng.randrange(1 << 32)])
            s.boot(1, rnd_mac(rng), mtu=1500, wifi=wifi, fill=0xA5, **at)
            if rng.random() < 0.3:
                s.fault(get=rng.choice([1 << 5, 1 << 15, 1 << 16, (1 << 5) | (1 << 15) | (1 << 16)]))
            s.lines.append("TLV 1 %d %d" % (rng.choice([0, 1, 46, 100, 333]), rng.choice([0, 0xFF, 0x5A, 0x13])))
            s.clear()
        scs.append(Scenario("xtlv-%d" % i, s.lines))
    return scs


TINY_MTUS = [54, 55, 60, 67, 68, 73, 74, 94, 100, 134, 200, 333]


def sc_tiny_mtu(name, seed, mtu):
    """Links with a very small frame budget (one or two descriptors per QueryResp, a few bytes of payload per
    chunk). The mapper binds through Query / Emit / QueryLargeTlv; no Discover is sent, because a Hello does not
    fit such a frame at all (outside every property's domain)."""
    rng = random.Random(seed)
    pay = mtu - 34
    s = new_script(mtu=mtu, icon=(3 * pay + 1, 5), name=(pay, 6))
    qcap, ecap = (mtu - 34) // 20, (mtu - 34) // 14
    k = rng.choice([qcap, qcap + 1, 2 * qcap + 1, 3 * qcap + 2])
    for i in range(k):
        a = bytes([0x02, 0x33, mtu & 0xFF, seed & 0xFF, 0, i])
        s.rx(1, probe(a, OWN, a, OWN, train=i & 1))
    s.drain(1, query(M1, OWN, seq=20), k + 3)
    s.rx(1, query(M1, OWN, seq=90))
    for n, declared in ((1, None), (ecap, None), (max(1, ecap - 1), 0xFFFF), (ecap, ecap + 1)):
        if n >= 1 and 34 + 14 * n <= mtu:
            s.rx(1, emit(M1, OWN, [(i & 1, i, OWN, PEER) for i in range(n)], seq=100 + n, declared=declared), fill=rng.choice([0, 0xFF, 1]))
    for typ in (0x0E, 0x11, 0x13):
        s.drain(1, query_large(M1, OWN, typ, 0, seq=200), 12, large=True)
        for off in (0, 1, pay - 1, pay, pay + 1, 3 * pay, 3 * pay + 1):
            s.rx(1, query_large(M1, OWN, typ, off, seq=300 + off % 100))
    s.rx(1, reset(M1))
    s.rx(1, probe(X, OWN, X, OWN))
    s.rx(1, query(M2, OWN, seq=5, eth_src=BR))
    return Scenario(name, s.lines, {"mtu": mtu})


def tiny_family(prefix, seed, tier):
    rng = random.Random(seed ^ 0x7171)
    return [sc_tiny_mtu("%s-tiny-%d" % (prefix, m), rng.randrange(1 << 30), m)
            for m in (TINY_MTUS if tier == "quick" else TINY_MTUS + list(range(54, 120)) + [rng.randrange(120, 576) for _ in range(40)])]


def sc_flood_reset(name, seed, mtu, n, twins=False):
    """the observation list driven to (and past) its cap of 1 024, then a Reset, then an ordinary session: nothing
    of the flood may show (on the twin interface the flood never happened)"""
    rng = random.Random(seed)
    s = new_script(mtu=mtu, twins=twins)
    ifcs = [1, 2] if twins else [1]
    s.rx(1, discover(0, M1, gen=1, seq=1))
    s.flood(1, n, seed & 0xFFFF)
    if rng.random() < 0.5:
        s.rx(1, reset(M1, tos=1))
    s.rx(1, reset(M1))
    s.rx(ifcs, discover(0, M2, gen=2, seq=1, eth_src=BR))
    s.rx(ifcs, query(M2, OWN, seq=2, eth_src=BR))
    for i in range(3):
        a = rnd_mac(rng)
        s.rx(ifcs, probe(a, OWN, a, OWN, train=i & 1))
    s.rx(ifcs, query(M2, OWN, seq=3, eth_src=BR))
    s.rx(ifcs, query(M2, OWN, seq=4, eth_src=BR))
    s.rx(1, reset(M2))
    return Scenario(name, s.lines)


def flood_family(prefix, seed, tier, twins=False):
    rng = random.Random(seed ^ 0xF100D)
    ns = [1023, 1024, 1025, 1100] if tier == "quick" else [1, 1000, 1022, 1023, 1024, 1025, 1026, 1100, 2048, 2049, 5000]
    return [sc_flood_reset("%s-floodreset-%d" % (prefix, n), rng.randrange(1 << 30), rng.choice([576, 1500, 9216]), n, twins=twins) for n in ns]


def sc_retry(name, seed, mtu, kinds=("large", "query", "emit", "discover")):
    """A request hit by a platform fault, a Reset, and then a DIFFERENT request that happens to carry the same
    sequence number (a mapper that timed out and restarted its counter): the answer is the answer to the new
    request. Interface 2 is the fresh twin: it sees only what follows each Reset."""
    rng = random.Random(seed)
    s = new_script(mtu=mtu, twins=True, icon=(2 * (mtu - 34) + 17, 9), name=(mtu - 34 + 5, 4))
    S = rng.choice([1, 7, 0x0100, 0xFFFF])
    pairs = []
    if "large" in kinds:
        pairs += [(query_large(M1, OWN, 0x0E, 0, seq=S), query_large(M1, OWN, 0x11, 0, seq=S)),
                  (query_large(M1, OWN, 0x0E, 0, seq=S), query_large(M1, OWN, 0x0E, mtu - 34, seq=S)),
                  (query_large(M1, OWN, 0x11, 0, seq=S, tos=1), query_large(M1, OWN, 0x13, 0, seq=S)),
                  (query_large(M1, OWN, 0x0E, mtu - 34, seq=S), query_large(M1, OWN, 0x0E, 0, seq=S, eth_src=BR))]
    if "query" in kinds:
        pairs += [(query(M1, OWN, seq=S), query(M1, OWN, seq=S))]
    if "emit" in kinds:
        pairs += [(emit(M1, OWN, [(1, 0, OWN, PEER), (0, 1, OWN, X)], seq=S), emit(M1, OWN, [(0, 2, OWN, X)], seq=S))]
    if "discover" in kinds:
        pairs += [(discover(0, M1, gen=0x1111, seq=S), discover(0, M1, gen=0x2222, seq=S, eth_src=BR))]
    for first, second in pairs:
        for fault in (dict(send=1), dict(send="all"), dict(alloc=1), dict(alloc=2)):
            s.rx(1, discover(0, M1, gen=3, seq=1))
            s.rx(1, probe(X, OWN, X, OWN))
            s.fault(**fault)
            s.rx(1, first)
            s.clear()
            if rng.random() < 0.3:
                s.rx(1, first)                     # the mapper may retry at once, too
            s.rx([1, 2], reset(M1))
            if rng.random() < 0.5:
                s.rx([1, 2], discover(0, M1, gen=4, seq=2))
            s.rx([1, 2], probe(PEER, OWN, PEER, OWN, train=True))
            s.rx([1, 2], second)
            s.rx([1, 2], query(M1, OWN, seq=(S % 0xFFFF) + 1))
            s.rx([1, 2], reset(M1))
    return Scenario(name, s.lines)


def sc_attr_drift(name, seed, wifi):
    """What the platform reports about an interface changes while the responder keeps running (lease renewed,
    roamed to another access point, renamed host, renegotiated link): every Hello carries the attributes of the
    moment it is sent - also for a repeated Discover of the same generation, also across a quick-discovery Reset."""
    rng = random.Random(seed)
    s = Script()
    host = rnd_name(rng)
    s.cfg(host=host, icon=(100, 1), name=(10, 2), hwid=b"")
    own = rnd_mac(rng)
    s.boot(1, own, mtu=rng.choice(MTUS), wifi=wifi, fill=0xA5, **rnd_attrs(rng, wifi))
    gens = [rng.randrange(1, 65536) for _ in range(3)] + [0]
    m = M1
    for i in range(40):
        x = rng.random()
        if x < 0.5:
            a = rnd_attrs(rng, wifi)
            keys = rng.sample(sorted(a), rng.randrange(1, len(a) + 1))
            s.set(1, **{k: a[k] for k in keys})
        elif x < 0.7:
            host = rnd_name(rng)
            s.cfg(host=host, icon=(100, 1), name=(10, 2), hwid=b"")
            s.set(1)
        y = rng.random()
        if y < 0.2:
            s.rx(1, reset(m, tos=1))
        elif y < 0.27:
            s.rx(1, reset(m, tos=0))
        s.rx(1, discover(rng.choice([0, 1, 1]), m, gen=rng.choice(gens), seq=rng.randrange(65536), eth_src=m if rng.random() < 0.8 else BR))
    return Scenario(name, s.lines)


def sc_mtu_drift(name, seed):
    """the interface MTU changes between requests (a tunnel comes up, jumbo frames are switched off): every reply
    is sized for the MTU in force when it is sent"""
    rng = random.Random(seed)
    mtus = [1500, 9000, 576, 1492, 590, 1500, 577, 9216]
    rng.shuffle(mtus)
    s = new_script(mtu=mtus[0], icon=(5000, 3), name=(1200, 4))
    m = M1
    s.rx(1, discover(0, m, gen=2, seq=1))
    seq = 10
    n = 0
    for mtu in mtus[1:]:
        for typ in (0x0E, 0x11):
            seq += 1
            s.rx(1, query_large(m, OWN, typ, rng.choice([0, 100, 1000]), seq=seq, tos=rng.choice([0, 1])))
        for _ in range(rng.choice([3, 80, 130])):
            a = bytes([0x02, 0x44, seed & 0xFF, 0, n >> 8, n & 0xFF]); n += 1
            s.rx(1, probe(a, OWN, a, OWN, train=n & 1))
        seq += 1
        s.rx(1, emit(m, OWN, [(1, 0, OWN, PEER)] * rng.choice([1, 38, 40, 104]), seq=seq, declared=rng.choice([None, 0xFFFF])))
        if rng.random() < 0.4:
            s.rx(1, reset(m, tos=1))
        s.set(1, mtu=mtu)
        seq += 1
        s.rx(1, query(m, OWN, seq=seq))
        for typ in (0x0E, 0x11, 0x13):
            seq += 1
            s.drain(1, query_large(m, OWN, typ, 0, seq=seq), 12, large=True)
            seq += 12
        s.drain(1, query(m, OWN, seq=seq + 1), 8)
        seq += 10
        s.rx(1, emit(m, OWN, [(0, 1, OWN, X)] * rng.choice([2, 39, 105]), seq=seq, declared=rng.choice([None, 0xFFFF])))
    s.rx(1, reset(m))
    return Scenario(name, s.lines)


def sc_header_sweep(name, tos_list, ops, context, ver=1, dst_own=True):
    """one frame per (service byte, opcode) with a plausible body, from nobody / the bound mapper / a stranger;
    a Reset of both services in between keeps every frame's context the same"""
    s = new_script()
    for tos in tos_list:
        for op in ops:
            s.rx(1, reset(M2))
            if context != "none":
                s.rx(1, discover(0, M1, gen=7, seq=1))
            src = M1 if context == "mapper" else X
            body = bytes([0x00, 0x07, 0x00, 0x01]) + OWN + PEER + bytes(8)
            f = header(tos, op, OWN if dst_own else BCAST, src, OWN if dst_own else BCAST, src, 5, ver=ver) + body
            s.rx(1, f)
    return Scenario(name, s.lines)


# --------------------------------------------------------------------------- C02 / C03 / generic
def sc_history(name, seed, mtu=1500, wifi=0, n=40, wild=0.15, twins=False, mut=0.0, noi=0.0, fills=(0, 0, 0xFF, 0x5A, 1)):
    rng = random.Random(seed)
    own = OWN if rng.random() < 0.6 else rnd_mac(rng)     # the interface's own address varies too
    while own in STATIONS or own == BR:
        own = rnd_mac(rng)
    s = new_script(mtu=mtu, wifi=wifi, twins=twins, own=own)
    h = Hist(rng, own=own, mtu=mtu, wild=wild)
    ifcs = [1, 2] if twins else [1]
    for f in h.frames(n):
        x = rng.random()
        if x < noi:
            f = noise(rng, mtu)
        elif x < noi + mut:
            f = mutate(rng, f, mtu)
        s.rx(ifcs, f[:mtu], fill=rng.choice(fills))
    return Scenario(name, s.lines, {"seed": seed, "mtu": mtu, "wifi": wifi, "n": n})


def sc_generation_regression():
    """the history of tests/test_lltd_generation.c: Hellos heard with other generations and a
    Discover of the other service in between"""
    s = new_script()
    s.rx(1, discover(1, M1, gen=0x1111, seq=1))
    s.rx(1, hello(1, PEER, 0x2222, M1, M1))
    s.rx(1, hello(0, X, 0x3333, M1, M1))
    s.rx(1, discover(0, M1, gen=0x4444, seq=2))
    s.rx(1, discover(1, M1, gen=0x1111, seq=3))
    s.rx(1, discover(0, M1, gen=0, seq=4))
    s.rx(1, discover(1, M1, gen=0xFFFF, seq=5, eth_src=BR))
    s.rx(1, discover(0, M1, gen=0x5555, seq=6, eth_src=BR))
    return Scenario("generation-regression", s.lines)


def campaign_c03(seed, tier):
    rng = random.Random(seed)
    scs = [sc_generation_regression()]
    nh = 24 if tier == "quick" else 400
    for i in range(nh):
        scs.append(sc_history("c03-hist-%d" % i, rng.randrange(1 << 30), mtu=any_mtu(rng), wifi=i % 2, n=40, wild=0.1))
    # H: random (generation, xid, ToS, src, eth src) tuples, each on a released mapper
    for i in range(8 if tier == "quick" else 100):
        s = new_script(mtu=rng.choice(MTUS), wifi=rng.choice([0, 1]))
        for _ in range(60):
            src = rnd_mac(rng)
            eth = src if rng.random() < 0.5 else rnd_mac(rng)
            tos = rng.choice([0, 1])
            s.rx(1, discover(tos, src, eth_src=eth, gen=rng.choice([0, 1, 0xFFFF, 0x0100, 0x00FF, rng.randrange(65536)]),
                             seq=rng.randrange(65536), stations=[rnd_mac(rng) for _ in range(rng.randrange(0, 3))]))
            if rng.random() < 0.3:
                s.rx(1, hello(rng.choice([0, 1]), PEER, rng.randrange(65536), src, eth))
            s.rx(1, reset(src, tos=rng.choice([0, 1]) if rng.random() < 0.5 else tos))
        scs.append(Scenario("c03-tuples-%d" % i, s.lines))
    for i in range(2 if tier == "quick" else 40):
        scs.append(sc_multihome("c03-multihome-%d" % i, rng.randrange(1 << 30), n=100))
    return with_slow(scs, seed, every=4)


def campaign_c02(seed, tier):
    rng = random.Random(seed)
    scs = []
    n = 18 if tier == "quick" else 2000
    for i in range(n):
        mtu = MTUS[i % 3] if i < 9 else any_mtu(rng)
        kind = i % 3
        scs.append(sc_history("c02-%s-%d" % (["valid", "mutated", "noise"][kind], i), rng.randrange(1 << 30), mtu=mtu,
                              wifi=(i // 3) % 2, n=36, wild=0.2, twins=True,
                              mut=[0.0, 0.5, 0.2][kind], noi=[0.0, 0.1, 0.6][kind],
                              fills=(0, 0xFF, 0x5A)))
    # every (service, opcode) header, in every context, to the station and to broadcast
    allops = list(range(256))
    for ctx in ("none", "mapper", "stranger"):
        for dst_own in (True, False):
            scs.append(sc_header_sweep("c02-hdr-%s-%s" % (ctx, "own" if dst_own else "bcast"), [0, 1], allops, ctx, dst_own=dst_own))
    scs.append(sc_header_sweep("c02-hdr-otherservices", [2, 3, 4, 0x10, 0x7F, 0x80, 0xFF], allops if tier != "quick" else list(range(0, 32)) + [0x80, 0xFF], "mapper"))
    for ver in ([0, 2, 3, 0x10, 0x11, 0x81, 0xFF] if tier == "quick" else [v for v in range(256) if v != 1]):
        scs.append(sc_header_sweep("c02-hdr-ver%d" % ver, [0, 1], [0, 2, 4, 6, 8, 11], "mapper", ver=ver))
    # full frames at every MTU residue (a QueryResp / Emit burst / large-TLV chunk that fills the MTU exactly)
    for mtu in (MTUS_RESIDUES if tier == "quick" else MTUS_RESIDUES + [rng.randrange(576, 9217) for _ in range(60)]):
        cap = (mtu - 34) // 20
        scs.append(sc_c07_drain("c02-full-%d" % mtu, rng.randrange(1 << 16), mtu, rng.choice([cap, cap + 1, 2 * cap + 1]), dups=False, foreign=False))
        scs.append(sc_c06("c02-emit-%d" % mtu, rng.randrange(1 << 30), mtu, mtu % 2))
    for i in range(2 if tier == "quick" else 30):
        scs.append(sc_multihome("c02-multihome-%d" % i, rng.randrange(1 << 30), n=80))
    scs += tiny_family("c02", seed, tier)
    scs += flood_family("c02", seed, tier)
    for i in range(2 if tier == "quick" else 30):
        scs.append(sc_mtu_drift("c02-mtudrift-%d" % i, rng.randrange(1 << 30)))
    return with_slow(scs, seed, every=6)


# --------------------------------------------------------------------------- C05
def sc_c05_sweep(name, pairs, active):
    """single-step sweep: for each (ToS, opcode): [Reset; (Discover M1); frame from X; Discover M2;
    Discover M1] - the two trailing Discovers read the mapper state back out"""
    s = new_script()
    for tos, op in pairs:
        s.rx(1, reset(M2))
        if active:
            s.rx(1, discover(0, M1, gen=7, seq=1))
        if op == OP_DISCOVER:
            f = discover(tos, X, gen=9, seq=2)
        elif op == OP_RESET:
            f = reset(X, tos=tos)
        elif op == OP_EMIT:
            f = emit(X, OWN, [(1, 0, OWN, PEER)], seq=3, tos=tos)
        elif op == OP_QUERY:
            f = query(X, OWN, seq=3, tos=tos)
        elif op == OP_QLT:
            f = query_large(X, OWN, 0x11, 0, seq=3, tos=tos)
        else:
            f = generic(tos, op, X, OWN, seq=3, body=bytes(8))
        s.rx(1, f)
        s.rx(1, discover(0, M2, gen=8, seq=4))
        s.rx(1, discover(0, M1, gen=7, seq=5))
    return Scenario(name, s.lines)


def campaign_c05(seed, tier):
    rng = random.Random(seed)
    scs = []
    if tier == "quick":
        pairs = [(t, o) for o in range(256) for t in (0, 1, 2, 3, 0x7F, 0xFF)] + [(t, o) for t in range(256) for o in (0, 8)]
    else:
        pairs = [(t, o) for t in range(256) for o in range(256)]
    chunk = 256
    for active in (0, 1):
        for i in range(0, len(pairs), chunk):
            scs.append(sc_c05_sweep("c05-sweep-%s-%d" % ("active" if active else "none", i // chunk), pairs[i:i + chunk], active))
    for i in range(16 if tier == "quick" else 300):
        scs.append(sc_history("c05-hist-%d" % i, rng.randrange(1 << 30), n=60, wild=0.0 if i % 2 else 0.2))
    scs.append(sc_onebyte_mapper("c05-onebyte"))
    scs.append(sc_twobyte("c05-twobyte"))
    for i in range(3 if tier == "quick" else 60):
        scs.append(sc_multihome("c05-multihome-%d" % i, rng.randrange(1 << 30), n=100))
    return with_slow(scs, seed, every=6)


# --------------------------------------------------------------------------- C04
V32 = [0, 1, 0xFF, 0x100, 0xFFFF, 0x10000, 0x7FFFFFFF, 0x80000000, 0xFFFFFFFF, 0x01020304, 0xA1B2C3D4]
V16 = [0, 1, 0x2000, 0x0800, 0x8000, 0xFFFF, 0x00FF, 0xFF00, 0x2800]
ATTR_GETTERS = [4, 6, 7, 8, 9, 10, 11, 12, 13, 14]   # getters whose failure leaves only their own TLV free


def rnd_name(rng):
    """names / SSIDs are arbitrary byte strings: every length 0..40 and awkward contents (trailing or
    embedded NULs, all zeros, 0xFF, UCS-2 style)"""
    n = rng.randrange(0, 41)
    k = rng.random()
    if k < 0.5:
        b = bytes(rng.randrange(256) for _ in range(n))
    elif k < 0.6:
        b = bytes(n)
    elif k < 0.7:
        b = bytes(rng.randrange(1, 256) for _ in range(max(0, n - 2))) + bytes(min(n, 2))
    elif k < 0.8:
        b = "".join(chr(0x41 + rng.randrange(26)) for _ in range(n // 2)).encode("utf-16le")
    elif k < 0.9:
        b = bytes([0xFF]) * n
    else:
        b = bytes([0]) + bytes(rng.randrange(256) for _ in range(max(0, n - 1)))
    return b[:40]


def rnd_attrs(rng, wifi):
    def v32():
        return rng.choice(V32) if rng.random() < 0.7 else rng.randrange(1 << 32)
    a = dict(ipv4=bytes(rng.randrange(256) for _ in range(4)) if rng.random() < 0.7 else (rng.choice(V32)).to_bytes(4, "big"),
             ipv6=bytes(rng.randrange(256) for _ in range(16)), speed=v32(), iftype=v32(),
             flags=rng.choice(V16) if rng.random() < 0.6 else rng.randrange(1 << 16))
    if wifi:
        a.update(wmode=rng.choice([0, 1, 2, 255]), bssid=rnd_mac(rng), ssid=rnd_name(rng),
                 rate=rng.choice([0, 1, 108, 0xFF, 0x100, 0xFFFF, rng.randrange(65536)]),
                 rssi=rng.choice([-128, -127, -1, 0, 1, 127, -57, rng.randrange(-128, 128)]))
    return a


def sc_c04(name, seed, n):
    rng = random.Random(seed)
    s = Script()
    for i in range(n):
        wifi = rng.choice([0, 1])
        hostlen = i % 41 if rng.random() < 0.5 else rng.randrange(0, 41)
        host = bytes(rng.choice([0x41 + rng.randrange(26), rng.randrange(256)]) for _ in range(hostlen))
        if rng.random() < 0.3:
            host = rnd_name(rng)
        s.cfg(host=host, icon=(100, 1), name=(10, 2), hwid=b"")
        own = rnd_mac(rng)
        s.boot(1, own, mtu=rng.choice(MTUS), wifi=wifi, fill=rng.choice([0xA5, 0x5A, 0, 0xFF]), **rnd_attrs(rng, wifi))
        m = rng.choice([M1, M2])
        if rng.random() < 0.35:
            mask = 0
            for g in ATTR_GETTERS:
                if rng.random() < 0.25:
                    mask |= 1 << g
            s.fault(get=mask)
        s.rx(1, discover(rng.choice([0, 1]), m, gen=rng.randrange(65536), seq=rng.randrange(65536),
                         eth_src=m if rng.random() < 0.7 else BR))
        s.clear()
        s.rx(1, discover(rng.choice([0, 1]), m, gen=rng.randrange(65536), seq=rng.randrange(65536)))
    return Scenario(name, s.lines)


def sc_preempt(name, seed, ks, kinds=("discover",)):
    """One receive thread per interface: interface 1's request is suspended at its k-th call into the platform
    layer while interface 2 (other attributes, other MTU, other mapper) serves a request of its own, and the
    other way round. Each interface's reaction must be what it would have been alone."""
    rng = random.Random(seed)
    s = Script()
    s.cfg(host=rnd_name(rng), icon=(700, 5), name=(30, 6), hwid="PREEMPT".encode("utf-16le"))
    macs = [rnd_mac(rng), rnd_mac(rng)]
    mtus = rng.choice([(1500, 1500), (576, 1500), (1500, 9000), (600, 577)])
    s.boot(1, macs[0], mtu=mtus[0], wifi=0, fill=0xA5, **rnd_attrs(rng, 0))
    s.boot(2, macs[1], mtu=mtus[1], wifi=1, fill=0x5A, **rnd_attrs(rng, 1))
    mp = {1: M1, 2: M2}

    def frame(kind, i):
        own, m = macs[i - 1], mp[i]
        if kind == "discover":
            return discover(rng.choice([0, 1]), m, gen=rng.randrange(1, 65536), seq=rng.randrange(65536), eth_src=m if rng.random() < 0.7 else BR)
        if kind == "query":
            return query(m, own, seq=rng.randrange(1, 65536))
        if kind == "large":
            return query_large(m, own, rng.choice([0x0E, 0x11, 0x13]), rng.choice([0, 3, 699]), seq=rng.randrange(1, 65536))
        if kind == "emit":
            return emit(m, own, [(rng.choice([0, 1]), 0, own, rnd_mac(rng)) for _ in range(rng.randrange(1, 4))], seq=rng.randrange(1, 65536))
        return probe(X, own, X, own)

    for k in ks:
        for a, b in ((1, 2), (2, 1)):
            ka, kb = rng.choice(kinds), rng.choice(kinds + ("discover",))
            # both interfaces in a known state: released, then (unless the request is the Discover itself) bound with observations
            for i in (1, 2):
                s.rx(i, reset(mp[i]))
                if (ka if i == a else kb) != "discover":
                    s.rx(i, discover(0, mp[i], gen=9, seq=1))
                    s.rx(i, probe(X, macs[i - 1], PEER, macs[i - 1]))
                    s.rx(i, probe(PEER, macs[i - 1], PEER, macs[i - 1], train=True))
            s.prx(a, b, k, frame(ka, a), frame(kb, b), fill_a=rng.choice([0, 0xFF]), fill_b=rng.choice([0, 0x5A]))
    return Scenario(name, s.lines)


def campaign_c04(seed, tier):
    rng = random.Random(seed)
    per = 100
    n = 32 if tier == "quick" else 1000
    scs = [sc_c04("c04-attrs-%d" % i, rng.randrange(1 << 30), per) for i in range(n)]
    # the Hello of one interface built while the receive thread of another interface runs in between
    for i in range(2 if tier == "quick" else 40):
        scs.append(sc_preempt("c04-preempt-%d" % i, rng.randrange(1 << 30), list(range(1, 23))))
    for i in range(4 if tier == "quick" else 80):
        scs.append(sc_attr_drift("c04-drift-%d" % i, rng.randrange(1 << 30), i % 2))
    scs.append(sc_preempt("c04-preempt-mixed", rng.randrange(1 << 30), list(range(1, 16)), kinds=("discover", "query", "large", "emit", "probe")))
    return scs


# --------------------------------------------------------------------------- C06
def sc_c06(name, seed, mtu, bridged):
    rng = random.Random(seed)
    s = new_script(mtu=mtu)
    cap = (mtu - 34) // 14
    m = M1
    eth = BR if bridged else m
    s.rx(1, discover(0, m, eth_src=eth, gen=3, seq=1))
    seq = rng.randrange(1, 0xFFF0)

    def descs(n):
        return [(rng.choice([0, 1]), rng.choice([0, 0, 1, 255, rng.randrange(256)]),
                 rng.choice([OWN, rnd_mac(rng)]), rng.choice([PEER, X, rnd_mac(rng)])) for _ in range(n)]

    for sq in (1, 0xFF, 0x100, 0x7FFF, 0x8000, 0xFF00, 0xFFFF, 0x0101):       # representation boundaries of the sequence number
        s.rx(1, emit(m, OWN, descs(rng.choice([1, 2, 3])), seq=sq, eth_src=eth))
    # sequence numbers that are each other's byte swap, complement or neighbour (a number compared in the wrong byte
    # order, or only in part, takes one for the other)
    for a, b in ((0x0102, 0x0201), (0x1234, 0x3412), (0x00FF, 0xFF00), (0x8001, 0x0180), (0x7FFF, 0x8000), (0x1234, 0x1235), (0x00AB, 0xAB00)):
        kind = rng.choice(["emit", "query", "large"])
        first = {"emit": emit(m, OWN, descs(1), seq=a, eth_src=eth), "query": query(m, OWN, seq=a, eth_src=eth),
                 "large": query_large(m, OWN, 0x11, 0, seq=a, eth_src=eth)}[kind]
        s.rx(1, first)
        s.rx(1, emit(m, OWN, descs(rng.choice([1, 2])), seq=b, eth_src=eth))
    ns = [1, 2, 3, cap - 1, cap] + [rng.randrange(1, cap + 1) for _ in range(3)]
    for n in ns:
        seq += 1
        # what lies behind the frame in the reused receive buffer is none of the Emit's business
        s.rx(1, emit(m, OWN, descs(n), seq=seq, eth_src=eth if rng.random() < 0.8 else m), fill=rng.choice([0, 0, 0xFF, 0xC0, 2, 1]))
    # declared counts exceeding what the frame carries
    for n in [1, 2, rng.randrange(1, 10)]:
        for declared in [n + 1, cap + 1, 0xFFFF, rng.randrange(n + 1, 0x10000)]:
            seq += 1
            s.rx(1, emit(m, OWN, descs(n), seq=seq, eth_src=eth, declared=declared), fill=rng.choice([0, 1, 0xFF, 3]))
    # out of domain: stranger, zero descriptors, unknown kinds, sequence number 0
    s.rx(1, emit(X, OWN, descs(2), seq=seq + 1))
    s.rx(1, emit(m, OWN, [], seq=seq + 2, eth_src=eth))
    s.rx(1, emit(m, OWN, [(2, 0, OWN, PEER), (1, 0, OWN, PEER)], seq=seq + 3, eth_src=eth))
    s.rx(1, emit(m, OWN, [(1, 0, OWN, PEER), (7, 0, OWN, PEER)], seq=seq + 4, eth_src=eth))
    s.rx(1, emit(m, OWN, descs(2), seq=0, eth_src=eth))
    # state dependence: after Reset no mapper is active; after a new Discover the new one is
    s.rx(1, reset(m))
    s.rx(1, emit(m, OWN, descs(2), seq=seq + 5, eth_src=eth))
    s.rx(1, reset(m))
    s.rx(1, discover(1, M2, gen=4, seq=9))
    s.rx(1, emit(M2, OWN, descs(3), seq=seq + 6))
    s.rx(1, emit(m, OWN, descs(1), seq=seq + 7))
    return Scenario(name, s.lines)


def campaign_c06(seed, tier):
    rng = random.Random(seed)
    scs = []
    reps = 2 if tier == "quick" else 30
    for r in range(reps):
        for mtu in MTUS:
            for bridged in (0, 1):
                scs.append(sc_c06("c06-%d-%d-%d" % (mtu, bridged, r), rng.randrange(1 << 30), mtu, bridged))
    for mtu in list(range(577, 591)) + [1492, 1499, 1501, 9000] + [rng.randrange(576, 9217) for _ in range(2 if tier == "quick" else 40)]:
        scs.append(sc_c06("c06-%d-r" % mtu, rng.randrange(1 << 30), mtu, mtu % 2))
    for i in range(8 if tier == "quick" else 200):
        scs.append(sc_history("c06-hist-%d" % i, rng.randrange(1 << 30), n=50, wild=0.1, mtu=rng.choice(MTUS)))
    scs += tiny_family("c06", seed, tier)
    for i in range(2 if tier == "quick" else 30):
        scs.append(sc_mtu_drift("c06-mtudrift-%d" % i, rng.randrange(1 << 30)))
    return with_slow(scs, seed, every=4)


# --------------------------------------------------------------------------- C07
def sc_c07_drain(name, seed, mtu, k, dups, foreign, bridged=False, interleave=True):
    rng = random.Random(seed)
    s = new_script(mtu=mtu)
    m = M1
    eth = BR if bridged else m
    s.rx(1, discover(0, m, eth_src=eth, gen=5, seq=1))
    seen = []
    for i in range(k):
        rs = bytes([0x02, 0x10, (seed >> 8) & 0xFF, seed & 0xFF, i >> 8, i & 0xFF])
        es = rs if rng.random() < 0.6 else rnd_mac(rng)
        ed = OWN if rng.random() < 0.7 else rnd_mac(rng)
        f = probe(es, ed, rs, OWN, train=rng.random() < 0.4)
        seen.append(f)
        s.rx(1, f)
        if dups and rng.random() < 0.3:
            s.rx(1, rng.choice(seen))
        if foreign and rng.random() < 0.3:
            s.rx(1, probe(rnd_mac(rng), rng.choice([OWN, PEER]), rnd_mac(rng), PEER, train=rng.random() < 0.5))
        if interleave and rng.random() < 0.05:
            s.rx(1, rng.choice([discover(0, m, eth_src=eth, gen=5, seq=2),
                                emit(m, OWN, [(1, 0, OWN, PEER)], seq=40 + i, eth_src=eth),
                                query_large(m, OWN, 0x11, 0, seq=41 + i, eth_src=eth),
                                discover(0, X, gen=9, seq=3)]))
    s.drain(1, query(m, OWN, seq=100, eth_src=eth), k + 3)
    s.rx(1, query(m, OWN, seq=900, eth_src=eth))
    return Scenario(name, s.lines, {"k": k, "mtu": mtu})


def sc_c07_redrain(name, seed, mtu):
    """partial drains interleaved with traffic: after a QueryResp that reports only part of the record, probes
    that were just reported arrive again (new observations), others arrive for the first time, then the drain
    continues"""
    rng = random.Random(seed)
    s = new_script(mtu=mtu)
    s.rx(1, discover(0, M1, gen=5, seq=1))
    cap = (mtu - 34) // 20
    k = cap + rng.choice([1, 2, cap // 2])
    sent = []
    for i in range(k):
        rs = bytes([0x02, 0x61, (seed >> 8) & 0xFF, seed & 0xFF, i >> 8, i & 0xFF])
        f = probe(rs, OWN, rs, OWN, train=i & 1)
        sent.append(f)
        s.rx(1, f)
    s.rx(1, query(M1, OWN, seq=50))                 # reports a full frame, leaves the rest queued
    s.rx(1, sent[-1])                               # the newest (just reported) again
    s.rx(1, sent[rng.randrange(len(sent))])         # some other one again
    s.rx(1, sent[0])                                # the oldest (possibly still queued) again
    s.rx(1, probe(X, OWN, X, OWN))
    s.drain(1, query(M1, OWN, seq=51), 6)
    s.rx(1, sent[-1])
    s.rx(1, query(M1, OWN, seq=60))
    return Scenario(name, s.lines)


def sc_c07_misc(name, seed, mtu):
    """key collisions, Reset discarding the record, observations while no mapper is active"""
    rng = random.Random(seed)
    s = new_script(mtu=mtu)
    a, b = rnd_mac(rng), rnd_mac(rng)
    s.rx(1, probe(a, OWN, b, OWN))
    s.rx(1, probe(a, PEER, b, OWN))           # same (Ethernet source, real source), other destination
    s.rx(1, probe(a, OWN, b, OWN, train=True))  # identical addresses, other kind
    s.rx(1, probe(b, OWN, a, OWN))
    s.rx(1, query(M1, OWN, seq=5))
    s.rx(1, query(M1, OWN, seq=6))
    for i in range(5):
        s.rx(1, probe(rnd_mac(rng), OWN, rnd_mac(rng), OWN))
    s.rx(1, reset(M1))
    s.rx(1, query(M1, OWN, seq=7))
    for i in range(4):
        s.rx(1, probe(rnd_mac(rng), OWN, rnd_mac(rng), OWN, train=True))
    s.rx(1, reset(M1, tos=1))
    s.rx(1, discover(0, M2, gen=1, seq=1, eth_src=BR))
    s.rx(1, query(M2, OWN, seq=8, eth_src=BR))
    s.rx(1, query(M2, OWN, seq=9, eth_src=BR))
    return Scenario(name, s.lines)


def campaign_c07(seed, tier):
    rng = random.Random(seed)
    scs = []
    for mtu in MTUS_RESIDUES + [rng.randrange(576, 9217) for _ in range(3)]:
        cap = (mtu - 34) // 20
        if tier == "quick":
            if mtu in MTUS:
                ks = sorted(set([0, 1, 2, cap - 1, cap, cap + 1, 2 * cap, 2 * cap + 1, 100, 300] + [rng.randrange(0, 301) for _ in range(2)]))
            else:
                ks = sorted(set([cap, cap + 1, 2 * cap + 1, min(300, 3 * cap + 2), rng.randrange(0, 301)]))
        else:
            ks = list(range(0, 301)) if mtu in MTUS else sorted(set([0, 1, cap - 1, cap, cap + 1, 2 * cap, 2 * cap + 1, 3 * cap + 1, 4 * cap + 3, 300]
                                                                      + [rng.randrange(0, 301) for _ in range(10)]))
        for k in ks:
            if k > 300:
                continue
            scs.append(sc_c07_drain("c07-drain-%d-%d" % (mtu, k), rng.randrange(1 << 16), mtu, k, dups=True, foreign=True,
                                    bridged=(k % 3 == 1)))
        if mtu in MTUS:
            scs.append(sc_c07_misc("c07-misc-%d" % mtu, rng.randrange(1 << 16), mtu))
            scs.append(sc_onebyte_obs("c07-onebyte-%d" % mtu, mtu))
            scs.append(sc_twobyte("c07-twobyte-%d" % mtu, mtu))
            for r in range(2):
                scs.append(sc_c07_redrain("c07-redrain-%d-%d" % (mtu, r), rng.randrange(1 << 16), mtu))
    for i in range(8 if tier == "quick" else 200):
        scs.append(sc_history("c07-hist-%d" % i, rng.randrange(1 << 30), n=60, wild=0.05, mtu=any_mtu(rng)))
    for i, mtu in enumerate([576, 576, 590, 1500] if tier == "quick" else [576] * 20 + [590] * 10 + [1500] * 10 + [rng.randrange(576, 2000) for _ in range(20)]):
        scs.append(sc_churn("c07-churn-%d-%d" % (mtu, i), rng.randrange(1 << 30), mtu))
    for i in range(4 if tier == "quick" else 80):
        scs.append(sc_multihome("c07-multihome-%d" % i, rng.randrange(1 << 30), n=150, probes=0.45))
    scs += tiny_family("c07", seed, tier)
    scs += flood_family("c07", seed, tier)
    for i in range(2 if tier == "quick" else 30):
        scs.append(sc_mtu_drift("c07-mtudrift-%d" % i, rng.randrange(1 << 30)))
    return with_slow(scs, seed, every=4)


# --------------------------------------------------------------------------- C08
def sc_c08(name, seed, mtu, isize, nsize, hwid, tier):
    rng = random.Random(seed)
    s = Script()
    s.cfg(icon=None if isize is None else (isize, rng.randrange(256)), name=None if nsize is None else (nsize, rng.randrange(256)), hwid=hwid)
    s.boot(1, OWN, mtu=mtu, **attrs_default())
    cap = mtu - 34
    m = M1
    s.rx(1, discover(0, m, gen=1, seq=1))
    seq = 10

    def nseq():
        # the mapper's sequence numbers are its own business: they may jump, go backwards (a mapper that restarted
        # its counter) or sit at a representation boundary; only 0 means "no answer wanted"
        nonlocal seq
        x = rng.random()
        if x < 0.55:
            seq = 1 if seq >= 0xFFFF else seq + 1
        elif x < 0.70:
            seq = rng.randrange(1, 0x10000)
        elif x < 0.88:
            seq = (seq - rng.choice([1, 2, 0x100, 0x7FFF, 0x8000, rng.randrange(1, 40000)])) % 0x10000 or 1
        elif x < 0.94:
            seq = (((seq & 0xFF) << 8) | (seq >> 8)) or 1        # the byte swap of the previous one
        else:
            seq = rng.choice([1, 0xFF, 0x100, 0x7FFF, 0x8000, 0x8001, 0xFF00, 0xFFFE, 0xFFFF])
        return seq

    def other():
        # other sequenced commands of the mapper in between
        if rng.random() < 0.2:
            s.rx(1, rng.choice([query(m, OWN, seq=nseq()), emit(m, OWN, [(1, 0, OWN, PEER)], seq=nseq()),
                                discover(0, m, gen=1, seq=rng.choice([0, nseq()]))]))
    for typ, size in ((0x0E, isize or 0), (0x11, nsize or 0), (0x13, len(hwid))):
        s.drain(1, query_large(m, OWN, typ, 0, seq=nseq()), 40, large=True)
        offs = [0, 1, cap - 1, cap, cap + 1, size - 1 if size > 0 else 0, size, size + 1, 65535,
                max(0, size - cap), max(0, size - cap - 1), max(0, size - cap + 1)] + [rng.randrange(65536) for _ in range(3)]
        for off in offs:
            if 0 <= off <= 65535:
                other()
                s.rx(1, query_large(m, OWN, typ, off, seq=nseq(), tos=rng.choice([0, 0, 1])))
    for typ in (0x00, 0x0F, 0x12, 0x14, 0x1A, 0xFF, rng.randrange(256)):
        s.rx(1, query_large(m, OWN, typ, rng.choice([0, 5]), seq=nseq()))
    s.rx(1, query_large(m, OWN, 0x0E, 0, seq=0))
    s.rx(1, query_large(m, OWN, 0x11, 0, seq=0, tos=1))
    # a second station walks the properties with its own sequence numbers while M1 is the active mapper:
    # whatever is answered must answer that request
    s.drain(1, query_large(X, OWN, 0x0E, 0, seq=0x4D01), 40, large=True)
    s.rx(1, query_large(X, OWN, 0x11, 0, seq=0x4E02, eth_src=BR))
    s.rx(1, query_large(m, OWN, 0x11, 1, seq=nseq()))
    # the cached icon must not survive a Reset with a stale size: re-query after Reset
    s.rx(1, reset(m, tos=rng.choice([0, 1])))
    s.rx(1, query_large(m, OWN, 0x0E, 0, seq=nseq()))
    s.rx(1, query_large(m, OWN, 0x0E, 7, seq=nseq(), eth_src=BR))
    return Scenario(name, s.lines)


def campaign_c08(seed, tier):
    rng = random.Random(seed)
    scs = []
    hw = "{6B29FC40-CA47-1067-B31D-00DD010662DA}".encode("utf-16le")[:64]
    for mtu in [577, 1492, 9000, rng.randrange(576, 9217)] + ([rng.randrange(576, 9217) for _ in range(30)] if tier == "thorough" else []):
        cap = mtu - 34
        for i, sz in enumerate([cap, cap + 1, 2 * cap + 1, rng.randrange(0, 32769)]):
            scs.append(sc_c08("c08-%d-x%d" % (mtu, i), rng.randrange(1 << 30), mtu, sz, rng.choice([0, 20, cap + 1]), hw, tier))
    for mtu in MTUS:
        cap = mtu - 34
        sizes = [0, 1, cap - 1, cap, cap + 1, 2 * cap - 1, 2 * cap, 2 * cap + 1, 16383, 16384, 32768]
        sizes += [rng.randrange(0, 32769) for _ in range(2 if tier == "quick" else 400)]
        if tier == "thorough":
            sizes += [j * cap + d for j in range(1, 5) for d in (-2, -1, 0, 1, 2)]
        for i, sz in enumerate(sizes):
            if sz > 32768:
                continue
            nsz = rng.choice([0, 1, 20, 64, cap, cap + 1, rng.randrange(0, 4000)])
            hwid = rng.choice([hw, b"", hw[:2], hw[:62], (hw + hw)[:64]])
            scs.append(sc_c08("c08-%d-%d" % (mtu, i), rng.randrange(1 << 30), mtu, sz, nsz, hwid, tier))
        scs.append(sc_c08("c08-%d-absent" % mtu, rng.randrange(1 << 30), mtu, None, None, b"", tier))
    scs += tiny_family("c08", seed, tier)
    for i, mtu in enumerate([576, 1500] if tier == "quick" else [576, 590, 1492, 1500, 9000] * 4):
        scs.append(sc_retry("c08-retry-%d-%d" % (mtu, i), rng.randrange(1 << 30), mtu, kinds=("large",)))
    for i in range(2 if tier == "quick" else 30):
        scs.append(sc_mtu_drift("c08-mtudrift-%d" % i, rng.randrange(1 << 30)))
    return with_slow(scs, seed, every=6)


# --------------------------------------------------------------------------- C09
def characterisation(rng, own=OWN):
    """continuation frames that read every piece of state back out"""
    c = []
    for m in (M1, X):
        c.append(discover(0, m, gen=0x0A0A, seq=1))
        c.append(discover(1, m, gen=0, seq=2))
    c.append(emit(M1, own, [(1, 0, own, PEER), (0, 1, own, X)], seq=3))
    c.append(query(M1, own, seq=4))
    for typ in (0x0E, 0x11, 0x13):
        c.append(query_large(M1, own, typ, 0, seq=5))
        c.append(query_large(M1, own, typ, 9, seq=6, tos=1))
    c.append(probe(PEER, own, PEER, own))
    c.append(query(M1, own, seq=7))
    c.append(discover(0, M2, gen=1, seq=8))
    c.append(reset(M1, tos=1))
    c.append(discover(1, M2, gen=0, seq=9, eth_src=BR))
    c.append(emit(M2, own, [(0, 0, own, PEER)], seq=10, eth_src=BR))
    return c


def sc_c09(name, seed, mtu, wild, nh, wifi=0):
    rng = random.Random(seed)
    s = new_script(mtu=mtu, wifi=wifi, twins=True)
    h = Hist(rng, mtu=mtu, wild=wild)
    faulty = False
    for f in h.frames(nh):
        if rng.random() < 0.1:
            f = mutate(rng, f, mtu)
        # platform faults are part of the past too (icon / name / hardware id unavailable for a while,
        # allocations or transmits refused): they must not influence anything after the Reset
        if not faulty and rng.random() < 0.08:
            s.fault(get=rng.choice([1 << 2, 1 << 3, 1 << 5, (1 << 2) | (1 << 3) | (1 << 5), 1 << 4]),
                    alloc=rng.choice([0, 0, 1, 2, 3]), send=rng.choice([0, 0, 1, "all"]))
            faulty = True
        elif faulty and rng.random() < 0.3:
            s.clear()
            faulty = False
        s.rx(1, f)
    if rng.random() < 0.5:
        s.fault(get=(1 << 2) | (1 << 3) | (1 << 5))
        for typ in (0x0E, 0x11, 0x13):
            s.rx(1, query_large(rng.choice(STATIONS), OWN, typ, 0, seq=rng.randrange(1, 65536)))
        faulty = True
    if faulty:
        s.clear()
    s.rx(1, reset(rng.choice(STATIONS)))
    cont = characterisation(rng)
    h2 = Hist(random.Random(seed + 1), mtu=mtu, wild=0.2)
    cont += h2.frames(25)
    rng.shuffle(cont)
    for f in cont:
        s.rx([1, 2], f)
    return Scenario(name, s.lines)


def campaign_c09(seed, tier):
    rng = random.Random(seed)
    scs = []
    for i in range(32 if tier == "quick" else 3000):
        scs.append(sc_c09("c09-%d" % i, rng.randrange(1 << 30), MTUS[i % 3], [0.0, 0.2, 0.5][i % 3], rng.choice([0, 1, 5, 30, 80]), wifi=i % 2))
    scs += flood_family("c09", seed, tier, twins=True)
    for i, mtu in enumerate([576, 1500] if tier == "quick" else [576, 590, 1492, 1500, 9000] * 4):
        scs.append(sc_retry("c09-retry-%d-%d" % (mtu, i), rng.randrange(1 << 30), mtu))
    return with_slow(scs, seed, every=4)


# --------------------------------------------------------------------------- C19
def sc_c19_flood(name, seed, mtu, n):
    s = new_script(mtu=mtu)
    s.rx(1, reset(M1))
    s.rx(1, discover(0, M1, gen=1, seq=1))
    s.flood(1, n, seed & 0xFFFF)
    s.rx(1, reset(M1))
    s.rx(1, discover(0, M1, gen=1, seq=1))
    s.rx(1, query(M1, OWN, seq=2))
    s.rx(1, reset(M1))
    return Scenario(name, s.lines)


def sc_c19_floods(name, seed, mtu):
    """several large floods with other stations' commands in between (ignored while a mapper is active): what the
    second flood retains is bounded by what the first one did"""
    rng = random.Random(seed)
    s = new_script(mtu=mtu)
    s.rx(1, reset(M1))
    s.rx(1, discover(0, M1, gen=1, seq=1))
    for r in range(3):
        s.flood(1, 10000, (seed + 7 * r) & 0xFFFF)
        for f in rng.sample([discover(0, X, gen=9, seq=2), discover(1, M2, gen=8, seq=3), emit(X, OWN, [(1, 0, OWN, PEER)], seq=4),
                             query_large(X, OWN, 0x0E, 0, seq=5), generic(0, OP_CHARGE, X, OWN), hello(0, PEER, 3, M1, M1),
                             discover(0, M1, gen=1, seq=6)], 3):
            s.rx(1, f)
    s.rx(1, reset(M1))
    s.rx(1, reset(M1))
    return Scenario(name, s.lines)


def sc_c19_idem(name, seed, mtu):
    rng = random.Random(seed)
    s = new_script(mtu=mtu, wifi=seed & 1)
    s.rx(1, reset(M1))
    h = Hist(rng, mtu=mtu, wild=0.1)
    for f in h.frames(50):
        s.rx(1, f)
        s.rx(1, f)
        if rng.random() < 0.15:
            s.rx(1, reset(M1))
    s.rx(1, reset(M2))
    return Scenario(name, s.lines)


def sc_c19_drain(name, seed, mtu):
    """more observations than fit one QueryResp, partial drains, Reset: nothing may stay allocated"""
    rng = random.Random(seed)
    s = new_script(mtu=mtu)
    s.rx(1, reset(M1))
    cap = (mtu - 34) // 20
    for rnd in range(3):
        s.rx(1, discover(0, M1, gen=1, seq=1))
        k = rng.choice([cap + 1, 2 * cap + 1, cap + rng.randrange(1, 40)])
        for i in range(k):
            src = bytes([2, 0x41, rnd, (seed >> 3) & 0xFF, i >> 8, i & 0xFF])
            s.rx(1, probe(src, OWN, src, OWN, train=i & 1))
        nq = rng.choice([1, 2, 10])
        s.drain(1, query(M1, OWN, seq=20), nq)
        s.rx(1, reset(M1))
    return Scenario(name, s.lines)


def sc_c19_nomapper(name, seed, mtu):
    """state that exists while no mapper is bound (observations recorded before any session, or kept
    across a quick-discovery Reset; a cached icon) must be released by the topology Reset as well"""
    rng = random.Random(seed)
    s = new_script(mtu=mtu)
    s.rx(1, reset(M1))
    for i in range(rng.randrange(3, 40)):
        src = bytes([2, 0x51, 0, (seed >> 5) & 0xFF, 0, i])
        s.rx(1, probe(src, OWN, src, OWN, train=i & 1))
    s.rx(1, reset(M2))
    s.rx(1, discover(0, M1, gen=2, seq=1))
    s.rx(1, query_large(M1, OWN, 0x0E, 0, seq=2))
    for i in range(rng.randrange(3, 20)):
        src = bytes([2, 0x52, 0, (seed >> 5) & 0xFF, 0, i])
        s.rx(1, probe(src, OWN, src, OWN))
    s.rx(1, reset(M1, tos=1))
    s.rx(1, reset(M1))
    s.rx(1, reset(M1))
    return Scenario(name, s.lines)


def sc_c19_faulty(name, seed, mtu):
    """histories in which the platform refuses allocations and transmits now and then: what a fault interrupts is
    released all the same, and a later (fault-free) Reset finds the constant record only"""
    rng = random.Random(seed)
    s = new_script(mtu=mtu)
    s.rx(1, reset(M1))
    h = Hist(rng, own=OWN, mtu=mtu, wild=0.1)
    for i in range(120):
        f = h.one()
        faulty = rng.random() < 0.3
        if faulty:
            k = rng.random()
            if len(f) >= 34 and f[17] == OP_EMIT and f[15] == 0 and k < 0.7:
                # a multi-frame reaction: refuse exactly one of its transmits, each position in turn (the last is the ACK)
                n = min((f[32] << 8) | f[33], 12)
                s.fault(send=1 << rng.randrange(0, n + 1))
            elif k < 0.4:
                s.fault(alloc=rng.randrange(1, 5), sticky=rng.choice([0, 0, 1]))
            elif k < 0.8:
                s.fault(send=rng.choice([1, 2, 4, 8, 3, 0xFFFF, 1 << rng.randrange(0, 12)]))
            else:
                s.fault(send="all")
        s.rx(1, f[:mtu])
        if faulty:
            s.clear()
        if i % 30 == 29:
            s.rx(1, reset(M1))
            h.mapper = None
    s.rx(1, reset(M1))
    s.rx(1, reset(M1))
    return Scenario(name, s.lines)


def campaign_c19(seed, tier):
    rng = random.Random(seed)
    scs = []
    for i in range(4 if tier == "quick" else 60):
        scs.append(sc_c19_nomapper("c19-nomapper-%d" % i, rng.randrange(1 << 30), rng.choice(MTUS)))
    for mtu in [576, 590, 1500] + ([9216] + [rng.randrange(576, 3000) for _ in range(20)] if tier == "thorough" else []):
        scs.append(sc_c19_drain("c19-drain-%d" % mtu, rng.randrange(1 << 30), mtu))
    n = 10000 if tier == "quick" else 100000
    for mtu in MTUS:
        scs.append(sc_c19_flood("c19-flood-%d" % mtu, rng.randrange(1 << 30), mtu, n))
    for i in range(13 if tier == "quick" else 300):
        scs.append(sc_c19_idem("c19-idem-%d" % i, rng.randrange(1 << 30), MTUS[i % 3]))
    for i in range(2 if tier == "quick" else 20):
        scs.append(sc_c19_floods("c19-floods-%d" % i, rng.randrange(1 << 30), MTUS[i % 3]))
    for i in range(6 if tier == "quick" else 200):
        scs.append(sc_c19_faulty("c19-faulty-%d" % i, rng.randrange(1 << 30), [576, 1500, 590][i % 3]))
    for i in range(6 if tier == "quick" else 120):
        scs.append(sc_multihome("c19-multihome-%d" % i, rng.randrange(1 << 30)))
    for i in range(3 if tier == "quick" else 40):
        scs.append(sc_churn("c19-churn-%d" % i, rng.randrange(1 << 30), [576, 590, 1500][i % 3], rounds=4))
    return scs


# --------------------------------------------------------------------------- C10
def sc_c10(name, seed, mtu, heavy=False):
    """two instances of this responder (interfaces 1 = A, 2 = B) on one segment; the mapper orders
    A to emit towards B; A's frames are delivered verbatim to B; B is queried"""
    rng = random.Random(seed)
    a_mac, b_mac = rnd_mac(rng), rnd_mac(rng)
    while b_mac == a_mac:
        b_mac = rnd_mac(rng)
    s = Script()
    std_cfg(s)
    s.boot(1, a_mac, mtu=mtu, fill=0xA5, **attrs_default())
    s.boot(2, b_mac, mtu=mtu, fill=0x5A, **attrs_default())
    m = M1
    gen = rng.randrange(1, 65536)
    # the mapper may sit behind a bridge - which may be B itself (B is the access point)
    via = rng.choice([m, m, BR, b_mac])
    s.rx([1], discover(0, m, gen=gen, seq=1, eth_src=via))
    s.rx([2], discover(0, m, gen=gen, seq=1))
    seq = 10
    qcap, ecap = (mtu - 34) // 20, (mtu - 34) // 14
    for rnd in range(rng.randrange(2, 5)):
        n = rng.randrange(1, 6)
        if heavy and rnd < 2:
            # more than one QueryResp carries: a single Emit can order more frames than B can report at once
            n = rng.choice([qcap, qcap + 1, ecap, rng.randrange(qcap + 1, ecap + 1)]) if rnd == 0 else rng.randrange(1, qcap)
        descs = []
        for i in range(n):
            src = rng.choice([a_mac, a_mac, rnd_mac(rng)]) if n < 6 else bytes([0x02, 0x55, rnd, seed & 0xFF, i >> 8, i & 0xFF])
            dst = rng.choice([b_mac, b_mac, b_mac, X]) if n < 6 else b_mac
            descs.append((rng.choice([0, 1]), rng.choice([0, 1, 7, 255]), src, dst))
        seq += 1
        # unrelated traffic interleaved
        if rng.random() < 0.5:
            s.rx([2], probe(X, b_mac, X, b_mac))
        if rng.random() < 0.3:
            s.rx([2], hello(0, PEER, gen, m, m))
        # a third station emitting towards B with the same mapper-chosen Ethernet source / destination
        if rng.random() < 0.6:
            d0 = rng.choice(descs)
            s.rx([2], probe(d0[2], d0[3], rng.choice([X, PEER]), b_mac, train=rng.random() < 0.5))
        # the other discovery service comes and goes on B in the meantime (Windows enumerates quickly while it
        # maps): its Reset releases the mapper binding, the topology session and what B records go on
        if rng.random() < 0.3:
            s.rx([2], discover(1, m, gen=rng.randrange(1, 65536), seq=seq + 400))
            s.rx([2], reset(m, tos=1))
        if rng.random() < 0.3:
            sw = rng.choice([0x0102, 0x1234, 0x00FF, 0x8001, 0x0A0B])
            s.rx([1], query_large(m, a_mac, 0x11, 0, seq=sw, eth_src=via))
            seq = ((sw & 0xFF) << 8) | (sw >> 8)
        s.rx([1], emit(m, a_mac, descs, seq=seq, eth_src=via))
        s.pipe(1, 2)
        if rng.random() < 0.4:
            s.rx([2], query_large(m, b_mac, 0x11, 0, seq=seq + 100))
        # whatever else the mapper says to B between the emission and the Query (a repeated Discover - same or new
        # generation, either service -, an Emit of B's own, Charge, a large-property request) loses no observation
        for _ in range(rng.choice([0, 0, 1, 2])):
            s.rx([2], rng.choice([discover(0, m, gen=gen, seq=seq + 300), discover(0, m, gen=rng.randrange(1, 65536), seq=seq + 301),
                                  discover(1, m, gen=rng.randrange(1, 65536), seq=seq + 302), discover(0, m, gen=0, seq=0),
                                  emit(m, b_mac, [(1, 0, b_mac, X)], seq=seq + 303), generic(0, OP_CHARGE, m, b_mac, seq=seq + 304),
                                  query_large(m, b_mac, 0x0E, 0, seq=seq + 305, tos=1), hello(0, PEER, gen, m, m)]))
        if rng.random() < 0.6 or rnd == 0:
            if heavy and rng.random() < 0.5:
                s.rx([2], query(m, b_mac, seq=seq + 150))      # one partial report, more traffic, then the rest
            else:
                s.drain(2, query(m, b_mac, seq=seq + 200), 8)
    s.drain(2, query(m, b_mac, seq=999), 8)
    return Scenario(name, s.lines)


def campaign_c10(seed, tier):
    rng = random.Random(seed)
    return [sc_c10("c10-%d" % i, rng.randrange(1 << 30), MTUS[i % 3] if i % 4 != 3 else rng.choice([576, 590, 1500]), heavy=(i % 4 == 3))
            for i in range(48 if tier == "quick" else 6000)]


# --------------------------------------------------------------------------- C18
def c18_corpus(wifi):
    """(name, prefix frames, target frame): every request type and every large property"""
    d0 = discover(0, M1, gen=0x11, seq=1)
    obs = [probe(X, OWN, X, OWN), probe(PEER, OWN, PEER, OWN, train=True), probe(BR, OWN, X, OWN)]
    return [
        ("discover-fresh", [], d0),
        ("discover-quick", [], discover(1, M1, gen=0x12, seq=2, eth_src=BR)),
        ("discover-again", [d0], discover(0, M1, gen=0x13, seq=3)),
        ("emit", [d0], emit(M1, OWN, [(1, 0, OWN, PEER), (0, 2, OWN, X), (1, 1, OWN, PEER)], seq=4)),
        ("emit-fresh", [], emit(M1, OWN, [(1, 0, OWN, PEER)], seq=4)),
        ("probe", [d0], obs[0]),
        ("probe-dup", [d0, obs[0]], obs[0]),
        ("query", [d0] + obs, query(M1, OWN, seq=5)),
        ("query-empty", [d0], query(M1, OWN, seq=5)),
        ("icon-first", [d0], query_large(M1, OWN, 0x0E, 0, seq=6)),
        ("icon-cached", [d0, query_large(M1, OWN, 0x0E, 0, seq=6)], query_large(M1, OWN, 0x0E, 1466, seq=7)),
        ("name", [d0], query_large(M1, OWN, 0x11, 0, seq=8, tos=1)),
        ("hwid", [d0], query_large(M1, OWN, 0x13, 0, seq=9)),
        ("large-unknown", [d0], query_large(M1, OWN, 0x55, 0, seq=10)),
        ("reset", [d0] + obs + [query_large(M1, OWN, 0x0E, 0, seq=6)], reset(M1)),
        ("reset-quick", [d0] + obs, reset(M1, tos=1)),
        ("hello-heard", [d0], hello(0, PEER, 3, M1, M1)),
    ]


def sc_c18(name, wifi, prefix, target, fault, cont_seed, repeat=1):
    """fault = dict(alloc=, sticky=, send=, get=) or None (measuring pass)"""
    rng = random.Random(cont_seed)
    s = new_script(mtu=1500, wifi=wifi, twins=True)
    for f in prefix:
        s.rx(1, f)
    if fault:
        s.fault(**fault)
    for _ in range(repeat):
        s.rx(1, target)
    target_line = len(s.lines)       # 1-based index within the scenario of the (last) target RX
    if fault:
        s.clear()
    s.rx(1, reset(M2))
    cont = characterisation(rng)
    for f in cont:
        s.rx([1, 2], f)
    sc = Scenario(name, s.lines, {"target_line": target_line})
    return sc


C18_GETSETS = [1 << 0, 1 << 1, 1 << 2, 1 << 3, 1 << 5, (1 << 0) | (1 << 1), (1 << 2) | (1 << 3) | (1 << 5), 0x3FFFF]


def campaign_c18_measure():
    scs = []
    for wifi in (0, 1):
        for (nm, pre, tgt) in c18_corpus(wifi):
            scs.append(sc_c18("c18-measure-%s-%d" % (nm, wifi), wifi, pre, tgt, None, 1))
    return scs


def sc_c18_mtu_cross(name, seed, other_mtu):
    """the MTU getter fails on an interface right after ANOTHER interface (different MTU) was served: the
    documented fallback is 1500, whatever other interfaces report"""
    rng = random.Random(seed)
    s = new_script(mtu=1500, twins=True)
    s.boot(3, PEER, mtu=other_mtu, fill=0x3C, **attrs_default())
    d0 = discover(0, M1, gen=0x11, seq=1)
    s.rx(1, d0)
    for i in range(80):
        src = bytes([2, 0x71, 0, 0, 0, i])
        s.rx(1, probe(src, OWN, src, OWN))
    s.rx(3, discover(0, M2, gen=5, seq=1))           # the other interface's MTU is the last one the port reported
    s.fault(get=1 << 0)
    s.rx(1, query(M1, OWN, seq=5))
    s.rx(3, discover(0, M2, gen=5, seq=2))
    s.rx(1, emit(M1, OWN, [(1, 0, OWN, PEER)] * 3, seq=6, declared=0xFFFF), fill=1)
    s.rx(3, discover(0, M2, gen=5, seq=3))
    s.rx(1, query_large(M1, OWN, 0x0E, 0, seq=7))
    s.clear()
    s.rx(1, reset(M2))
    for f in characterisation(rng):
        s.rx([1, 2], f)
    return Scenario(name, s.lines)


def campaign_c18(seed, tier, counts):
    """counts: name -> (allocations, transmits) of the target request in a fault-free run"""
    rng = random.Random(seed)
    scs = []
    for om in (9000, 576, 1501):
        scs.append(sc_c18_mtu_cross("c18-mtu-cross-%d" % om, rng.randrange(1 << 30), om))
    for wifi in (0, 1):
        for (nm, pre, tgt) in c18_corpus(wifi):
            na, ns = counts.get("c18-measure-%s-%d" % (nm, wifi), (3, 2))
            for k in range(1, na + 2):
                scs.append(sc_c18("c18-%s-%d-alloc%d" % (nm, wifi, k), wifi, pre, tgt, dict(alloc=k), rng.randrange(1 << 30)))
            scs.append(sc_c18("c18-%s-%d-allocsticky" % (nm, wifi), wifi, pre, tgt, dict(alloc=1, sticky=1), rng.randrange(1 << 30)))
            if na >= 2:
                scs.append(sc_c18("c18-%s-%d-allocsticky2" % (nm, wifi), wifi, pre, tgt, dict(alloc=2, sticky=1), rng.randrange(1 << 30), repeat=2))
            for j in range(1, ns + 1):
                scs.append(sc_c18("c18-%s-%d-send%d" % (nm, wifi, j), wifi, pre, tgt, dict(send=1 << (j - 1)), rng.randrange(1 << 30)))
            if ns >= 1:
                scs.append(sc_c18("c18-%s-%d-sendall" % (nm, wifi), wifi, pre, tgt, dict(send="all"), rng.randrange(1 << 30), repeat=3))
            for g in C18_GETSETS:
                scs.append(sc_c18("c18-%s-%d-get%x" % (nm, wifi, g), wifi, pre, tgt, dict(get=g), rng.randrange(1 << 30)))
            if tier == "thorough":
                for _ in range(12):
                    g = rng.randrange(1 << 17)
                    scs.append(sc_c18("c18-%s-%d-get%x-a%d" % (nm, wifi, g, 2), wifi, pre, tgt,
                                      dict(get=g, alloc=rng.randrange(0, na + 1), send=rng.randrange(0, 4)), rng.randrange(1 << 30)))
    for i, mtu in enumerate([576, 1500] if tier == "quick" else [576, 590, 1492, 1500, 9000] * 3):
        scs.append(sc_retry("c18-retry-%d-%d" % (mtu, i), rng.randrange(1 << 30), mtu))
    return scs


# --------------------------------------------------------------------------- C01
def boundary_counts(mtu):
    return [0, 1, (mtu - 34) // 14, (mtu - 34) // 14 + 1, (mtu - 34) // 20, (mtu - 34) // 20 + 1,
            (mtu - 36) // 6, (mtu - 36) // 6 + 1, (mtu - 36) // 14, (mtu - 36) // 14 + 1, 240, 0x7FFF, 0x8000, 0xFFFF]


def sc_c01(name, seed, mtu, wifi, pairs, nrand):
    rng = random.Random(seed)
    s = Script()
    s.cfg(host=bytes(rng.randrange(256) for _ in range(rng.randrange(0, 41))),
          icon=(rng.choice([0, 1, 3000, 32768]), 1), name=(rng.choice([0, 5, 2000]), 2),
          hwid=rng.choice([b"", "X".encode("utf-16le"), bytes(range(1, 65))]))
    own = rng.choice([OWN, rnd_mac(rng)])
    s.boot(1, own, mtu=mtu, wifi=wifi, fill=rng.choice([0xA5, 0, 0xFF]), **rnd_attrs(rng, wifi))
    h = Hist(rng, own=own, mtu=mtu, wild=0.3)
    counts = boundary_counts(mtu)
    # every (ToS, opcode) pair of this shard, body: boundary counters + noise
    for tos, op in pairs:
        cnt = rng.choice(counts)
        body = bytes([cnt >> 8, cnt & 0xFF]) + bytes([rng.choice(counts) >> 8 & 0xFF, rng.choice(counts) & 0xFF])
        body += bytes(rng.randrange(256) for _ in range(rng.choice([0, 2, 12, 40, 200])))
        src = rng.choice(STATIONS)
        f = header(tos, op, rng.choice([own, BCAST]), src, rng.choice([own, BCAST, PEER]), src, rng.randrange(65536)) + body
        f = f[:mtu]
        ln = rng.choice([len(f), len(f), 32, rng.randrange(0, len(f) + 1)])
        s.rx(1, f[:max(ln, 0)] if rng.random() < 0.3 else f, length=min(ln, mtu), fill=rng.choice([0, 0xFF, 1, rng.randrange(256)]), all_entries=True)
        if rng.random() < 0.1:
            s.adv(rng.choice([0, 1, 100, 999, 1000, 1001, 31000, 61000, 120000]))
    # every request kind truncated around its fixed header, the rest of the buffer holding stale bytes
    for op in (0, 2, 6, 11, 8, 1):
        base = header(rng.choice([0, 1]), op, own, M1, own, M1, rng.randrange(1, 65536)) + bytes([0x12, 0x34, 0, 2]) + own + PEER
        for ln in (30, 31, 32, 33, 34, 35, 36, 37, 41, 42, 47, 48):
            s.rx(1, base[:ln], length=ln, fill=rng.choice([0xFF, 0xFF, 1, 0x80]), all_entries=True)
    for _ in range(nrand):
        x = rng.random()
        f = h.one()
        if x < 0.35:
            f = mutate(rng, f, mtu)
        elif x < 0.55:
            f = noise(rng, mtu)
        elif x < 0.7 and len(f) >= 36:
            # Discover / Emit / QueryResp-shaped frame with a boundary counter and a body that fills the MTU
            cnt = rng.choice(counts)
            b = bytearray(f[:32]) + bytes([rng.randrange(256), rng.randrange(256), cnt >> 8, cnt & 0xFF])
            b[17] = rng.choice([0, 2])
            if b[17] == 2:
                b[32], b[33] = cnt >> 8, cnt & 0xFF
            b += bytes(rng.choice([0, 1, rng.randrange(256)]) for _ in range(rng.choice([0, 14, mtu - 36])))
            f = bytes(b)
        f = f[:mtu]
        s.rx(1, f, length=rng.choice([len(f), len(f), rng.randrange(0, len(f) + 1)]), fill=rng.choice([0, 0xFF, 1, 2, rng.randrange(256)]), all_entries=True)
        if rng.random() < 0.1:
            s.adv(rng.choice([0, 1, 100, 999, 1000, 1001, 5000, 31000, 61000, 120000]))
    return Scenario(name, s.lines)


def sc_c01_load(name, seed, mtu):
    rng = random.Random(seed)
    s = Script()
    s.cfg(host=b"load-host", icon=(2 * (mtu - 34) + 1, 3), name=(mtu - 34, 4), hwid=bytes(range(1, 65)))
    s.boot(1, OWN, mtu=mtu, wifi=seed & 1, fill=0xA5, **attrs_default(wifi=seed & 1))
    qcap = (mtu - 34) // 20
    ecap = (mtu - 34) // 14
    s.rx(1, discover(0, M1, gen=1, seq=1), all_entries=True)
    for k in (qcap + 2, 1, qcap, qcap - 1):
        for i in range(k):
            src = bytes([2, 0x21, k & 0xFF, (seed >> 4) & 0xFF, i >> 8, i & 0xFF])
            s.rx(1, probe(src, OWN, src, OWN, train=i & 1), all_entries=True)
        s.rx(1, query(M1, OWN, seq=10 + (k & 0xFF)), all_entries=True)
        s.rx(1, query(M1, OWN, seq=11 + (k & 0xFF)), all_entries=True)
    for n in (ecap, ecap - 1, 1):
        descs = [(i & 1, 0, OWN, PEER) for i in range(n)]
        s.rx(1, emit(M1, OWN, descs, seq=300 + (n & 0xFF)), all_entries=True)
    s.rx(1, emit(M1, OWN, [(1, 0, OWN, PEER)] * ecap, seq=400, declared=0xFFFF), all_entries=True)
    for typ in (0x0E, 0x11, 0x13):
        for off in (0, 1, mtu - 35, mtu - 34, mtu - 33, 2 * (mtu - 34), 65535):
            s.rx(1, query_large(M1, OWN, typ, off & 0xFFFF, seq=500), all_entries=True)
    stations = [rnd_mac(rng) for _ in range((mtu - 36) // 6)]
    f = discover(0, M1, gen=1, seq=2, stations=stations[:-1] + [OWN])
    s.rx(1, f[:mtu], all_entries=True)
    s.rx(1, reset(M1), all_entries=True)
    return Scenario(name, s.lines)


def campaign_c01(seed, tier):
    rng = random.Random(seed)
    scs = []
    if tier == "quick":
        mtus = [576, 1500]
        pairs = [(t, o) for o in range(256) for t in (0, 1, 2, 0xFF)] + [(t, o) for t in range(256) for o in (0, 2, 6, 8, 11)]
        nrand = 250
    else:
        mtus = [576, 577, 1500, 9216]
        pairs = [(t, o) for t in range(256) for o in range(256)]
        nrand = 1500
    rng.shuffle(pairs)
    per = 256
    i = 0
    # valid but heavy sessions at every MTU residue class: full QueryResp / Emit / large-TLV frames
    # are where off-by-a-header errors in the size arithmetic write or read past the buffers
    for mtu in (MTUS_RESIDUES if tier == "quick" else MTUS_RESIDUES + [rng.randrange(576, 9217) for _ in range(60)]):
        scs.append(sc_c01_load("c01-load-%d" % mtu, rng.randrange(1 << 30), mtu))
    for mtu in mtus:
        for j in range(0, len(pairs), per):
            scs.append(sc_c01("c01-%d-%d" % (mtu, j // per), rng.randrange(1 << 30), mtu, i % 2, pairs[j:j + per], nrand if j < 16 * per else 0))
            i += 1
    for i, mtu in enumerate([576, 576, 590, 1500] if tier == "quick" else [576] * 30 + [590] * 10 + [1500] * 10 + [rng.randrange(576, 2000) for _ in range(30)]):
        scs.append(sc_churn("c01-churn-%d-%d" % (mtu, i), rng.randrange(1 << 30), mtu, all_entries=True))
    scs += tiny_family("c01", seed, tier)
    scs += flood_family("c01", seed, tier)
    for i in range(2 if tier == "quick" else 30):
        scs.append(sc_mtu_drift("c01-mtudrift-%d" % i, rng.randrange(1 << 30)))
    return scs


def c09_from_histories(hists, seed):
    """G1 state cover: every mechanism state of ResponderImpl is 'before the Reset' once"""
    import g1
    rng = random.Random(seed)
    scs = []
    for i, h in enumerate(hists):
        s = Script()
        g1.boot(s, twins=True)
        for f in h:
            s.rx(1, f)
        s.rx(1, reset(g1.M2_MC))
        cont = characterisation(rng, own=g1.OWN_MC)
        for f in cont:
            s.rx([1, 2], f)
        scs.append(Scenario("c09-g1-%d" % i, s.lines))
    return scs


# --------------------------------------------------------------------------- C04 (Linux platform layer)
def campaign_c04_linux(seed, tier):
    rng = random.Random(seed ^ 0x4C)
    scs = []
    n = 12 if tier == "quick" else 300
    per = 60
    v32 = V32 + [100, 99, 199, 4294967200, 1000000000, 2500000000, 100000000, 10000000]
    for i in range(n):
        lines = []
        for _ in range(per):
            medium = rng.choice([0x10, 0x20, 0x30, 0, 0xFFFFFFFF, 0xFFFFFFEF, rng.randrange(1 << 32)])
            flags = rng.choice([0x1043, 0x49, 0x8, 0, 0xFFFFFFFF, 0xFFFFFFF7, rng.randrange(1 << 32)])
            host = bytes(rng.choice([0x41 + rng.randrange(26), rng.randrange(1, 256)]) for _ in range(rng.choice([0, 1, 31, 32, 33, 40, 64, rng.randrange(0, 100)])))
            lines.append("LIF mac=%s mtu=%d iftype=%d medium=%d speed=%d flags=%d ipv4=%s ipv6=%s host=%s" % (
                rnd_mac(rng).hex(), rng.choice([576, 1500, 9000, rng.randrange(576, 9217)]),
                rng.choice(v32) if rng.random() < 0.6 else rng.randrange(1 << 32), medium,
                rng.choice(v32) if rng.random() < 0.7 else rng.randrange(1 << 32), flags,
                "-" if rng.random() < 0.2 else bytes(rng.randrange(256) for _ in range(4)).hex(),
                "-" if rng.random() < 0.2 else bytes(rng.randrange(256) for _ in range(16)).hex(),
                "!" if rng.random() < 0.1 else (host.hex() or "-")))
            lines.append("DISC %d" % rng.choice([0, 1]))
        scs.append(Scenario("c04-linux-%d" % i, lines))
    return scs


# --------------------------------------------------------------------------- addresses differing in ONE byte
def flip(addr, i):
    b = bytearray(addr)
    b[i] ^= 0x40
    return bytes(b)


def flip2(addr, i, j, mask=0x40):
    b = bytearray(addr)
    b[i] ^= mask
    b[j] ^= mask
    return bytes(b)


def sc_twobyte(name, mtu=1500):
    """look-alike addresses whose differences cancel under XOR / a byte sum are still other stations"""
    s = new_script(mtu=mtu)
    pairs = [(i, j) for i in range(6) for j in range(i + 1, 6)]
    for (i, j) in pairs[:8]:
        other = flip2(M1, i, j)
        s.rx(1, reset(M1))
        s.rx(1, discover(0, M1, gen=1, seq=1))
        s.rx(1, discover(0, other, gen=2, seq=2))                 # another station: unanswered
        s.rx(1, probe(X, OWN, X, flip2(OWN, i, j)))              # for another station: not recorded
        s.rx(1, probe(X, OWN, PEER, OWN))
        s.rx(1, probe(flip2(X, i, j), OWN, PEER, OWN))           # a distinct observation
        s.rx(1, probe(X, OWN, flip2(PEER, i, j), OWN))           # a distinct observation
        s.drain(1, query(M1, OWN, seq=3), 3)
    return Scenario(name, s.lines)


def sc_onebyte_mapper(name):
    """mapper identity is the whole 6-byte real source: stations differing from the active mapper in exactly
    one byte (each position in turn) are other stations"""
    s = new_script()
    for i in range(6):
        other = flip(M1, i)
        s.rx(1, reset(M1))
        s.rx(1, discover(0, M1, gen=1, seq=1))
        s.rx(1, discover(0, other, gen=2, seq=2))            # must stay unanswered
        s.rx(1, discover(1, M1, gen=3, seq=3, eth_src=other))  # same real source via another Ethernet source: answered
        s.rx(1, reset(other))
        s.rx(1, discover(0, other, gen=4, seq=4))            # released: answered
        s.rx(1, discover(0, M1, gen=5, seq=5))               # now M1 is the other station
    return Scenario(name, s.lines)


def sc_onebyte_obs(name, mtu=1500):
    """observations: the filter on the own address and the identity of an observation use all six bytes"""
    s = new_script(mtu=mtu)
    s.rx(1, discover(0, M1, gen=1, seq=1))
    for i in range(6):
        s.rx(1, probe(X, OWN, X, flip(OWN, i)))              # for another station: never recorded
    s.rx(1, query(M1, OWN, seq=2))
    base = probe(X, OWN, PEER, OWN)
    s.rx(1, base)
    for i in range(6):
        s.rx(1, probe(flip(X, i), OWN, PEER, OWN))           # other Ethernet source: a distinct observation
        s.rx(1, probe(X, OWN, flip(PEER, i), OWN))           # other real source: a distinct observation
    s.rx(1, base)                                            # identical repeat
    s.drain(1, query(M1, OWN, seq=3), 4)
    s.rx(1, query(M1, OWN, seq=9))
    return Scenario(name, s.lines)
