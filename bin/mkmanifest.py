#!/usr/bin/env python3
"""Writes /verif/MANIFEST.json from the table below (kept in one place so it stays current)."""
import json
import os
import subprocess

VERIF = os.path.dirname(os.path.dirname(os.path.abspath(__file__)))

TB = ("TLC 1.8 + the specifications in /verif/spec (Wire.tla written from MS-LLTD); the verification port harness/vport.c as the "
      "closed-world environment of the core; clang 14 sanitizers; scenario generators only choose what is tested, the monitors "
      "re-parse the bytes actually delivered")

CHECKS = {
    "C01": ("exploration", "3 C01, 2.1 BoundsMC",
            "model-generated and boundary/noise histories through all three receive entry points in exact-MTU heap buffers under ASan/UBSan "
            "(-fno-sanitize-recover); trace must be complete and accepted with Check=C02; the session table, the engines and the Darwin frame flow driven under the same "
            "sanitizers; bounds logic (read extent <= MTU) model-checked in ResponderMC",
            "TLA+ bounds model + sanitizer-observed trace replay"),
    "C02": ("model_checking", "3 C02",
            "TLC validates every lltd_port_send_frame of valid, mutated and noise histories against Wire!TxDecode well-formedness and "
            "Responder solicitation bounds; twin interfaces with different fresh-memory patterns must transmit identical bytes",
            "TLA+ byte-level trace validation (TLC) + twin-run equality"),
    "C03": ("model_checking", "3 C03", "TLC checks Responder!HelloOK on every reply to a Discover in generated histories (both services, bridged, heard Hellos)",
            "TLA+ trace validation (TLC), general spec Responder"),
    "C04": ("model_checking", "3 C04", "TLC computes the required TLV bytes from the logged attribute tuple (Responder!HelloAttrsOK) and compares with the Hello the code sent, "
            "attribute getters failing independently, attributes changing under a running interface, one interface's Hello preempted at every port call by another's request", "TLA+ trace validation, TLC as byte oracle"),
    "C05": ("model_checking", "3 C05", "nondeterministic TLC monitor of the mapper role with named freedoms; (ToS, opcode) single-step sweep in both mapper states plus random histories; "
            "history invariant model-checked in ResponderMC", "TLA+ model checking + trace validation (TLC)"),
    "C06": ("model_checking", "3 C06", "TLC checks the ordered (sleep, send) port-call list of every Emit against Responder!EmitExact / EmitBounded", "TLA+ trace validation (TLC)"),
    "C07": ("model_checking", "3 C07", "TLC tracks the observation set through Probe/Query/Reset and checks every QueryResp (drains k=0..300 around the frame capacity); "
            "conservation invariant model-checked in ResponderMC", "TLA+ model checking + trace validation (TLC)"),
    "C08": ("model_checking", "3 C08", "TLC checks Responder!ChunkOK and the payload bytes of every QueryLargeTlvResp and full reassembly loops; reassembly theorem model-checked (LargeTlvMC)",
            "TLA+ model checking + trace validation (TLC)"),
    "C09": ("model_checking", "3 C09", "paired traces: history.Reset.c on one interface vs c on a fresh one must transmit identical bytes, each side an allowed Responder behaviour; Reset => Init model-checked",
            "TLA+ trace validation (TLC) with twin equality"),
    "C10": ("model_checking", "3 C10", "two instances in one process, A's transmitted bytes delivered verbatim to B (provenance verified by the monitor); TLC requires A to emit what the Emit orders (C06 rules on the emitting half) and B's QueryResp to list A's probes",
            "TLA+ trace validation (TLC), Network monitor"),
    "C11": ("model_checking", "3 C11", "TLC evaluates Automata!Classify on the recorded frame bytes, table and own address and requires the return value of derive_session_event "
            "(built without LLTD_TESTING) to be in the allowed set: counts 0..240, every position class, table variants, opcodes 0..255, truncated frames",
            "TLA+ trace validation (TLC) of a function value"),
    "C12": ("model_checking", "3 C12", "every send_hello callback made by automata_tick (also through the textually extracted Darwin frame path) is checked by TLC against the pacing invariants "
            "(only in tick, only with an incomplete session of the specification's own table, >= 1000 ms apart), two interfaces in one process validated separately; "
            "the abstract timed model TickPacing is model-checked exhaustively, the exact model TickExactMC by simulation",
            "TLA+ model checking (TickPacing), simulation (TickExactMC) + trace validation (TLC)"),
    "C13": ("model_checking", "3 C13", "TLC compares band_update_stats / band_choose_hello_time results with Automata!NiNext / HelloIntervalMin on boundary-dense r (halves, no 32-bit wrap in the oracle), "
            "monotone in r along ascending sequences; closed form ALPHA*r^2 >= NMAX for r >= 15 discharged by Apalache (Lemmas.tla)",
            "TLA+ trace validation (TLC) + Apalache lemma"),
    "C14": ("model_checking", "3 C14", "exhaustive single steps 3 states x inputs -128..255 x elapsed classes against Automata!MappingStep, event/time histories, and the tick's 30 s inactivity rule "
            "through the Darwin frame path, all judged by TLC", "TLA+ trace validation (TLC), strict next-state relation"),
    "C15": ("model_checking", "3 C15", "exhaustive 4 states x session events x elapsed classes against Automata!SessionStep plus random event/time histories, judged by TLC",
            "TLA+ trace validation (TLC), strict next-state relation"),
    "C16": ("model_checking", "3 C16", "operation sequences of length 200 over up to 24 keys (full-table case) with clock advances compared step by step by TLC with the dictionary model of Automata.tla "
            "(return value, count, empty, all-complete, live set); the dictionary model itself is model-checked (AutomataMC)", "TLA+ model checking + trace validation (TLC)"),
    "C17": ("model_checking", "3 C17", "Registry.tla (PlusCal) explores all interleavings of the registry's shared-memory steps; every maximal schedule is forced through yield hooks on real threads "
            "and matched against the model (RegistryTrace.tla); TSan with barrier-released threads; interleaved vs solo per-interface traces validated by TLC; two automata instances with interleaved ticks validated per instance; one interface's request "
            "preempted at every port call by a whole request of another. The lost-update race of lltd_state_for_iface is a recorded known finding", "TLA+/PlusCal model checking + forced-schedule replay + trace validation (TLC), TSan"),
    "C18": ("fault_enumeration", "3 C18", "every k-th allocation, every transmit, getter subsets failed per corpus request under ASan; TLC checks reaction bounds, ledger and post-Reset equality with a fresh twin",
            "TLA+ trace validation (TLC) over enumerated fault plans"),
    "C19": ("model_checking", "3 C19", "TLC ledger monitors (plateau under floods of distinct probes, idempotence, reset-constant, per-request growth) on live-allocation counts of the verification port",
            "TLA+ trace validation (TLC) of allocation ledger"),
}

NA = {
    "C20": "link-time / source-text property over a compiler x flag matrix: no state, transitions or behaviours for a TLA+ specification to describe; see DESIGN.md 3 C20",
}


def main():
    props = [json.loads(l)["id"] for l in open(os.path.join(VERIF, "properties.jsonl")) if l.strip()]
    checks = []
    for pid in props:
        if pid not in CHECKS:
            continue
        level, ref, text, tech = CHECKS[pid]
        checks.append({
            "property_id": pid,
            "quick_cmd": "bin/check %s --tier quick" % pid,
            "thorough_cmd": "bin/check %s --tier thorough" % pid,
            "evidence_file": "/verif/evidence/%s.json" % pid,
            "replay_cmd_template": "bin/check replay {path}",
            "engine": "tlc-trace",
            "level_claimed": {"category": level, "text": text, "design_ref": ref},
            "level_note": TB,
            "technique": tech,
        })
    na = [{"property_id": p, "reason": NA.get(p, "check not built yet (work in progress); see DESIGN.md")} for p in props if p not in CHECKS]
    try:
        commits = subprocess.check_output(["git", "-C", "/repo", "log", "--format=%h %s", "2738198..HEAD"]).decode().strip().split("\n")
    except Exception:
        commits = []
    hook_commits = [c.split()[0] for c in commits if c and not c.split(" ", 1)[1].startswith("fix:")]
    m = {
        "version": 1,
        "setup_cmd": "bin/setup",
        "hooks": {"guard": "LLTD_VERIF_HOOKS", "enable": "checks compile /repo's core with clang -DLLTD_VERIF_HOOKS (never -DLLTD_TESTING)",
                  "baseline_off_cmd": "make -C /repo test", "source_commits": hook_commits, "add_only": True},
        "engines": [{"name": "tlc-trace", "path": "/verif/bin/check", "serves_properties": sorted(CHECKS),
                     "kind_free_text": "explicit TLA+ specifications (spec/*.tla) checked by TLC; traces recorded from the real code by harness/* validated by TLC; TLC-generated behaviours replayed into the code"}],
        "checks": checks,
        "not_applicable": na,
        "notes": "fix: commits in /repo: " + "; ".join(c for c in commits if " fix:" in c),
    }
    with open(os.path.join(VERIF, "MANIFEST.json"), "w") as f:
        json.dump(m, f, indent=1)
    print("MANIFEST.json: %d checks, %d not_applicable" % (len(checks), len(na)))


if __name__ == "__main__":
    main()
