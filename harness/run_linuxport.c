/* The REAL Linux platform layer (os/linux/lltd_port.c) linked as the port, with the libc calls
 * it makes wrapped (-Wl,--wrap=sendto,getifaddrs,freeifaddrs,gethostname,nanosleep,clock_gettime).
 * Script:  LIF key=value...   (a synthetic network_interface_t record + what the OS would report)
 *          DISC <tos>         (a Discover through parseFrame; the Hello is captured at sendto)
 * One event per DISC: the interface record as logged by the driver and the bytes handed to sendto. */
#define _GNU_SOURCE
#include <ifaddrs.h>
#include <netinet/in.h>
#include <stdio.h>
#include <stdlib.h>
#include <string.h>
#include <sys/socket.h>
#include <time.h>

#include "lltdPort.h"
#include "lltdBlock.h"
#include "daemon/linux-main.h"

lltd_global_info_t globalInfo;

void lltd_verif_yield(const char *point, void *iface_ctx) { (void)point; (void)iface_ctx; }

static FILE *tr;
static long lineno;
static network_interface_t ifc;
static char devname[32] = "veth0";
static int have4, have6, host_fail;
static uint8_t ip4[4], ip6[16];
static char hostname_buf[300];
static size_t hostname_len;
static uint8_t sent[16384];
static ssize_t sent_len;
static int nsent;

ssize_t __wrap_sendto(int fd, const void *buf, size_t len, int flags, const struct sockaddr *to, socklen_t tolen) {
    (void)fd; (void)flags; (void)to; (void)tolen;
    if (len <= sizeof sent) { memcpy(sent, buf, len); sent_len = (ssize_t)len; }
    nsent++;
    return (ssize_t)len;
}

static struct ifaddrs ifa[8];
static struct sockaddr_in sa4;
static struct sockaddr_in6 sa6;
static struct sockaddr_in other4, decoy4;
static struct sockaddr_in6 decoy6;
int __wrap_getifaddrs(struct ifaddrs **out) {
    /* other interfaces first - among them ones whose names merely share a prefix with ours (veth0 vs
     * veth00, veth0.100, vet) - then ours: the port must pick by exact name */
    memset(ifa, 0, sizeof ifa);
    other4.sin_family = AF_INET;
    other4.sin_addr.s_addr = htonl(0x7F000001);
    ifa[0].ifa_name = "lo";
    ifa[0].ifa_addr = (struct sockaddr *)&other4;
    decoy4.sin_family = AF_INET;
    decoy4.sin_addr.s_addr = htonl(0x0A090909);
    decoy6.sin6_family = AF_INET6;
    memset(&decoy6.sin6_addr, 0x99, 16);
    ifa[3].ifa_name = "veth00";      ifa[3].ifa_addr = (struct sockaddr *)&decoy4;
    ifa[4].ifa_name = "veth0.100";   ifa[4].ifa_addr = (struct sockaddr *)&decoy6;
    ifa[5].ifa_name = "vet";         ifa[5].ifa_addr = (struct sockaddr *)&decoy4;
    ifa[6].ifa_name = "veth0";       ifa[6].ifa_addr = NULL;          /* an entry without an address */
    ifa[0].ifa_next = &ifa[3]; ifa[3].ifa_next = &ifa[4]; ifa[4].ifa_next = &ifa[5]; ifa[5].ifa_next = &ifa[6];
    struct ifaddrs *tail = &ifa[6];
    if (have6) {
        sa6.sin6_family = AF_INET6;
        memcpy(&sa6.sin6_addr, ip6, 16);
        ifa[1].ifa_name = devname;
        ifa[1].ifa_addr = (struct sockaddr *)&sa6;
        tail->ifa_next = &ifa[1];
        tail = &ifa[1];
    }
    if (have4) {
        sa4.sin_family = AF_INET;
        memcpy(&sa4.sin_addr, ip4, 4);
        ifa[2].ifa_name = devname;
        ifa[2].ifa_addr = (struct sockaddr *)&sa4;
        tail->ifa_next = &ifa[2];
        tail = &ifa[2];
    }
    *out = &ifa[0];
    return 0;
}
void __wrap_freeifaddrs(struct ifaddrs *p) { (void)p; }
int __wrap_gethostname(char *name, size_t len) {
    if (host_fail) return -1;
    size_t n = hostname_len < len - 1 ? hostname_len : len - 1;
    memcpy(name, hostname_buf, n);
    name[n] = 0;
    return 0;
}
int __wrap_nanosleep(const struct timespec *a, struct timespec *b) { (void)a; (void)b; return 0; }
int __wrap_clock_gettime(clockid_t c, struct timespec *ts) { (void)c; ts->tv_sec = 1000; ts->tv_nsec = 0; return 0; }

static int hexv(int c) { return c >= '0' && c <= '9' ? c - '0' : c >= 'a' && c <= 'f' ? c - 'a' + 10 : c >= 'A' && c <= 'F' ? c - 'A' + 10 : -1; }
static size_t parse_hex(const char *s, uint8_t *out, size_t cap) {
    size_t n = 0;
    if (!s || s[0] == '-') return 0;
    while (s[0] && s[1] && hexv(s[0]) >= 0 && hexv(s[1]) >= 0 && n < cap) { out[n++] = (uint8_t)(hexv(s[0]) * 16 + hexv(s[1])); s += 2; }
    return n;
}
static const char *kv(char **tok, int n, const char *k) {
    size_t kl = strlen(k);
    for (int i = 0; i < n; i++) if (!strncmp(tok[i], k, kl) && tok[i][kl] == '=') return tok[i] + kl + 1;
    return NULL;
}
static void jb(const uint8_t *b, size_t n) { fputc('[', tr); for (size_t i = 0; i < n; i++) fprintf(tr, i ? ",%u" : "%u", b[i]); fputc(']', tr); }

int main(int argc, char **argv) {
    FILE *in = argc > 1 ? fopen(argv[1], "r") : stdin;
    tr = argc > 2 ? fopen(argv[2], "w") : stdout;
    if (!in || !tr) return 2;
    static char line[8192];
    char *tok[40];
    while (fgets(line, sizeof line, in)) {
        lineno++;
        int nt = 0;
        for (char *p = strtok(line, " \t\r\n"); p && nt < 40; p = strtok(NULL, " \t\r\n")) tok[nt++] = p;
        if (!nt || tok[0][0] == '#') continue;
        if (!strcmp(tok[0], "MARK")) { fprintf(tr, "{\"e\":\"mark\",\"ln\":%ld}\n", lineno); continue; }
        if (!strcmp(tok[0], "LIF")) {
            network_interface_t *fresh = calloc(1, sizeof *fresh);   /* fresh context pointer */
            ifc = *fresh;
            free(fresh);
            memset(&ifc, 0, sizeof ifc);
            ifc.deviceName = devname;
            ifc.socket = 3;
            parse_hex(kv(tok, nt, "mac"), ifc.macAddress, 6);
            ifc.MTU = (uint32_t)strtoul(kv(tok, nt, "mtu"), NULL, 0);
            ifc.ifType = (uint32_t)strtoul(kv(tok, nt, "iftype"), NULL, 0);
            ifc.MediumType = (uint32_t)strtoul(kv(tok, nt, "medium"), NULL, 0);
            ifc.LinkSpeed = (uint32_t)strtoul(kv(tok, nt, "speed"), NULL, 0);
            ifc.flags = (uint32_t)strtoul(kv(tok, nt, "flags"), NULL, 0);
            const char *v = kv(tok, nt, "ipv4");
            have4 = v && v[0] != '-' && parse_hex(v, ip4, 4) == 4;
            v = kv(tok, nt, "ipv6");
            have6 = v && v[0] != '-' && parse_hex(v, ip6, 16) == 16;
            v = kv(tok, nt, "host");
            host_fail = v && v[0] == '!';
            hostname_len = host_fail ? 0 : parse_hex(v, (uint8_t *)hostname_buf, 255);
            continue;
        }
        if (!strcmp(tok[0], "DISC")) {
            /* a brand-new interface context for every Discover: no mapper is active */
            network_interface_t *ctx = malloc(sizeof *ctx);
            *ctx = ifc;
            uint8_t *buf = calloc(1, ctx->MTU);
            memset(buf, 0xFF, 6);
            uint8_t m[6] = {2, 0xBB, 0, 0, 0, 1};
            memcpy(buf + 6, m, 6);
            buf[12] = 0x88; buf[13] = 0xD9; buf[14] = 1; buf[15] = (uint8_t)atoi(tok[1]); buf[17] = 0;
            memset(buf + 18, 0xFF, 6);
            memcpy(buf + 24, m, 6);
            buf[31] = 1; buf[32] = 0x12; buf[33] = 0x34;
            nsent = 0; sent_len = 0;
            parseFrame(buf, ctx);
            fprintf(tr, "{\"e\":\"lhello\",\"ln\":%ld,\"nsent\":%d,\"mtu\":%u,\"mac\":", lineno, nsent, ctx->MTU);
            jb(ctx->macAddress, 6);
            fprintf(tr, ",\"iftype\":[%u,%u],\"medium\":[%u,%u],\"speed\":[%u,%u],\"flags\":[%u,%u],\"have4\":%d,\"ipv4\":",
                    ctx->ifType >> 16, ctx->ifType & 0xFFFF, ctx->MediumType >> 16, ctx->MediumType & 0xFFFF,
                    ctx->LinkSpeed >> 16, ctx->LinkSpeed & 0xFFFF, ctx->flags >> 16, ctx->flags & 0xFFFF, have4);
            jb(ip4, 4);
            fprintf(tr, ",\"have6\":%d,\"ipv6\":", have6);
            jb(ip6, 16);
            fprintf(tr, ",\"hostfail\":%d,\"host\":", host_fail);
            jb((const uint8_t *)hostname_buf, hostname_len);
            fprintf(tr, ",\"b\":");
            jb(sent, sent_len > 0 ? (size_t)sent_len : 0);
            fprintf(tr, "}\n");
            fflush(tr);
            free(buf);
            /* ctx stays allocated: the core keeps a record keyed by its address */
            continue;
        }
        fprintf(stderr, "HARNESS: line %ld: unknown directive\n", lineno);
        return 2;
    }
    fprintf(tr, "{\"e\":\"end\",\"ln\":%ld}\n", lineno);
    fclose(tr);
    return 0;
}
