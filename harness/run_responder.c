/* Script-driven driver for the frame handler (parseFrame) and, for C01, the other receive
 * entry points.  Reads a line-based script on stdin (or argv[1]), writes one ndjson event
 * per request to the trace file (argv[2] or stdout). */
#include <ctype.h>
#include <stdio.h>
#include <stdlib.h>
#include <string.h>
#include <unistd.h>
#include <pthread.h>
#include <semaphore.h>

#include "vport.h"
#include "lltdPort.h"

#include "lltdAutomata.h"
#include "lltdTlvOps.h"
#include "lltdBlock.h"
#include "lltd_esp32.h"

/* guarded hook in lltdBlock.c: projection of the interface's record */
typedef struct lltd_verif_iface_view {
    uint8_t  mapper_known;
    uint8_t  mapper_real[6];
    uint8_t  mapper_apparent[6];
    uint16_t mapper_seq;
    uint16_t gen_topology;
    uint16_t gen_quick;
    uint8_t  icon_cached;
    uint32_t see_count;
    uint32_t see_listed;
} lltd_verif_iface_view;
int lltd_verif_iface_view_get(void *iface_ctx, lltd_verif_iface_view *out, uint8_t (*see)[18], size_t cap);
#define SNAP_CAP 1100
static uint8_t snap_see[SNAP_CAP][18];

static FILE *tr;
static long lineno = 0;
static long bootno = 0;
static long evno = 0;           /* number of trace lines written so far */

typedef struct ifextra {
    lltd_esp32_ctx_t esp;
    session_table   *table;
    automata        *mapping, *enumeration;
    uint64_t         last_hello_tx;
    int              ready;
} ifextra;
static ifextra *extra[VP_MAX_IF + 1];

static void die(const char *m) {
    fprintf(stderr, "HARNESS: line %ld: %s\n", lineno, m);
    exit(2);
}

static int hexv(int c) {
    if (c >= '0' && c <= '9') return c - '0';
    if (c >= 'a' && c <= 'f') return c - 'a' + 10;
    if (c >= 'A' && c <= 'F') return c - 'A' + 10;
    return -1;
}

static size_t parse_hex(const char *s, uint8_t *out, size_t cap) {
    size_t n = 0;
    if (!s || s[0] == '-') return 0;
    while (s[0] && s[1] && hexv(s[0]) >= 0 && hexv(s[1]) >= 0) {
        if (n >= cap) die("hex too long");
        out[n++] = (uint8_t)(hexv(s[0]) * 16 + hexv(s[1]));
        s += 2;
    }
    return n;
}

/* key=value lookup in a tokenised line */
static const char *kv(char **tok, int ntok, const char *key) {
    size_t kl = strlen(key);
    for (int i = 0; i < ntok; i++)
        if (strncmp(tok[i], key, kl) == 0 && tok[i][kl] == '=') return tok[i] + kl + 1;
    return NULL;
}

static long kvl(char **tok, int ntok, const char *key, long dflt) {
    const char *v = kv(tok, ntok, key);
    return v ? strtol(v, NULL, 0) : dflt;
}

static void tick_send_hello(void *ni) {
    /* periodic Hello requested by the tick: recorded as a pseudo transmit */
    (void)ni;
    lltd_port_sleep_ms(0);
}

/* IF id k=v ... : a freshly started responder on a new context pointer.
 * SET id k=v ... : the platform's view of an EXISTING interface changes (address lease renewed, roamed to another
 * access point, MTU lowered, host renamed through CFG): only the given attributes change, the context - and with it
 * everything the responder remembers - stays. Both are logged as a "boot" event (keep = 0 / 1). */
static void do_boot(char **tok, int ntok, int keep) {
    int id = atoi(tok[1]);
    if (id < 1 || id > VP_MAX_IF) die("bad interface id");
    vif *v;
    if (keep) {
        v = vp_if[id];
        if (!v) die("SET: interface not booted");
    } else {
        v = calloc(1, sizeof *v);   /* fresh context pointer: a freshly started responder */
        v->id = id;
        v->mtu = 1500; v->fill = 0xA5; v->iftype = 6;
    }
#define HAS(k) (kv(tok, ntok, k) != NULL)
    if (HAS("mac") && !keep) parse_hex(kv(tok, ntok, "mac"), v->mac, 6);
    if (HAS("mtu")) v->mtu = (size_t)kvl(tok, ntok, "mtu", 1500);
    if (HAS("wifi") && !keep) v->wifi = (int)kvl(tok, ntok, "wifi", 0);
    if (HAS("fill")) v->fill = (uint8_t)kvl(tok, ntok, "fill", 0xA5);
    if (HAS("flags")) v->flags = (uint32_t)strtoul(kv(tok, ntok, "flags"), NULL, 0);
    if (HAS("iftype")) v->iftype = (uint32_t)strtoul(kv(tok, ntok, "iftype"), NULL, 0);
    if (HAS("ipv4")) parse_hex(kv(tok, ntok, "ipv4"), v->ipv4, 4);
    if (HAS("ipv6")) parse_hex(kv(tok, ntok, "ipv6"), v->ipv6, 16);
    if (HAS("speed")) v->speed = (uint32_t)strtoul(kv(tok, ntok, "speed"), NULL, 0);
    if (HAS("wmode")) v->wmode = (uint8_t)kvl(tok, ntok, "wmode", 0);
    if (HAS("bssid")) parse_hex(kv(tok, ntok, "bssid"), v->bssid, 6);
    if (HAS("ssid")) v->ssid_len = parse_hex(kv(tok, ntok, "ssid"), v->ssid, sizeof v->ssid);
    if (HAS("rate")) v->rate = (uint16_t)kvl(tok, ntok, "rate", 0);
    if (HAS("rssi")) v->rssi = (int8_t)kvl(tok, ntok, "rssi", 0);
    if (HAS("phy")) v->phy = (uint32_t)strtoul(kv(tok, ntok, "phy"), NULL, 0);
#undef HAS
    if (!keep) {
        vp_if[id] = v;
        extra[id] = NULL;
        bootno++;
    }

    fprintf(tr, "{\"e\":\"boot\",\"keep\":%d,", keep);
    fprintf(tr, "\"ln\":%ld,\"ifc\":%d,\"boot\":%ld,\"mtu\":%zu,\"wifi\":%d,\"mac\":", lineno, id, bootno, v->mtu, v->wifi);
    vp_json_bytes(tr, v->mac, 6);
    fprintf(tr, ",\"flags\":%u,\"iftype\":[%u,%u],\"ipv4\":", v->flags & 0xFFFF, v->iftype >> 16, v->iftype & 0xFFFF);
    vp_json_bytes(tr, v->ipv4, 4);
    fprintf(tr, ",\"ipv6\":");
    vp_json_bytes(tr, v->ipv6, 16);
    fprintf(tr, ",\"speed\":[%u,%u],\"wmode\":%u,\"bssid\":", v->speed >> 16, v->speed & 0xFFFF, v->wmode);
    vp_json_bytes(tr, v->bssid, 6);
    fprintf(tr, ",\"ssid\":");
    vp_json_bytes(tr, v->ssid, v->ssid_len);
    fprintf(tr, ",\"rate\":%u,\"rssi\":%d,\"host\":", v->rate, (int)v->rssi);
    vp_json_bytes(tr, vp_cfg.hostname, vp_cfg.hostname_len);
    fprintf(tr, ",\"icon\":[%d,%zu,%d],\"name\":[%d,%zu,%d],\"hwid\":",
            vp_cfg.icon_present, vp_cfg.icon_size, vp_cfg.icon_salt,
            vp_cfg.name_present, vp_cfg.name_size, vp_cfg.name_salt);
    vp_json_bytes(tr, vp_cfg.hwid, vp_cfg.hwid_len);
    fprintf(tr, "}\n");
    evno++;
}

static void do_cfg(char **tok, int ntok) {
    const char *v;
    if ((v = kv(tok, ntok, "host"))) vp_cfg.hostname_len = parse_hex(v, vp_cfg.hostname, sizeof vp_cfg.hostname);
    if ((v = kv(tok, ntok, "icon"))) {
        if (v[0] == '-') vp_cfg.icon_present = 0;
        else { vp_cfg.icon_present = 1; sscanf(v, "%zu:%d", &vp_cfg.icon_size, &vp_cfg.icon_salt); }
    }
    if ((v = kv(tok, ntok, "name"))) {
        if (v[0] == '-') vp_cfg.name_present = 0;
        else { vp_cfg.name_present = 1; sscanf(v, "%zu:%d", &vp_cfg.name_size, &vp_cfg.name_salt); }
    }
    if ((v = kv(tok, ntok, "hwid"))) vp_cfg.hwid_len = parse_hex(v, vp_cfg.hwid, sizeof vp_cfg.hwid);
    if ((v = kv(tok, ntok, "uuid"))) {
        if (v[0] == '-') vp_cfg.uuid_present = 0;
        else { vp_cfg.uuid_present = 1; parse_hex(v, vp_cfg.uuid, 16); }
    }
}

/* persistent fault plan, re-armed for every delivery */
static long     plan_alloc = 0;
static int      plan_sticky = 0;
static uint64_t plan_send = 0;
static int      plan_send_all = 0;
static uint32_t plan_get = 0;

static void arm_faults(void) {
    vp_fail_alloc_at = plan_alloc;
    vp_fail_alloc_sticky = plan_sticky;
    vp_fail_send_mask = plan_send;
    vp_fail_send_all = plan_send_all;
    vp_fail_get_mask = plan_get;
    vp_alloc_seq = 0;
    vp_send_seq = 0;
    vp_faults_fired = 0;
    vp_getters_failed = 0;
}

static void disarm_faults(void) {
    vp_fail_alloc_at = 0;
    vp_fail_send_mask = 0;
    vp_fail_send_all = 0;
    vp_fail_get_mask = 0;
}

static void ensure_extra(int id) {
    if (extra[id]) return;
    vif *save = vp_cur;
    vp_cur = NULL; /* harness-owned allocations go to the system ledger */
    long fa = vp_fail_alloc_at;
    vp_fail_alloc_at = 0;
    ifextra *x = calloc(1, sizeof *x);
    lltd_esp32_init(&x->esp);
    x->table = session_table_create();
    x->mapping = init_automata_mapping();
    x->enumeration = init_automata_enumeration();
    x->ready = 1;
    extra[id] = x;
    vp_fail_alloc_at = fa;
    vp_cur = save;
}

static uint8_t last_tx_op;       /* scratch for DRAIN/LDRAIN (peeks at the last transmitted frame) */
static uint8_t last_tx_b32, last_tx_b33;
static int     last_tx_any;

static void peek_last_tx(void) {
    /* find last {"k":"t" item's bytes in the recorded reaction: cheap textual scan */
    const char *j = vp_out_json();
    const char *p = j, *last = NULL;
    while ((p = strstr(p, "\"b\":[")) != NULL) { last = p + 5; p += 5; }
    last_tx_any = 0;
    if (!last) return;
    int idx = 0;
    unsigned v = 0;
    int have = 0;
    for (const char *q = last;; q++) {
        if (isdigit((unsigned char)*q)) { v = v * 10 + (unsigned)(*q - '0'); have = 1; continue; }
        if (have) {
            if (idx == 17) last_tx_op = (uint8_t)v;
            if (idx == 32) last_tx_b32 = (uint8_t)v;
            if (idx == 33) { last_tx_b33 = (uint8_t)v; last_tx_any = 1; }
            idx++; v = 0; have = 0;
        }
        if (*q == ']' || *q == 0) break;
    }
}

/* deliver one frame to one interface through the chosen entry points */
static long pipe_ev = 0, pipe_idx = 0;   /* provenance of a piped frame (0 = none) */
static long last_req_ev[VP_MAX_IF + 1];

/* ---- forced preemption (PRX): the daemons run one receive thread per interface. The frame of interface a is
 * handled on a thread of its own; at its k-th call into the port that thread is suspended, interface b's frame is
 * handled from start to end, then the first thread resumes. Only one thread runs at any time. */
static struct {
    int pending;            /* a PRX line is being served: the next deliver() is the preempted one */
    long k;                 /* suspend at the k-th port call */
    int b_id; size_t b_len; uint8_t b_fill; uint8_t *b_pre; size_t b_npre;
    long calls;             /* port calls made by the handler thread */
    int paused;
} prx;
static pthread_t prx_thread;
static int prx_thread_live = 0;
static sem_t prx_evt, prx_resume;
static struct { uint8_t *buf; vif *v; } prx_job;

static void prx_hook(void) {
    if (!prx_thread_live || !pthread_equal(pthread_self(), prx_thread)) return;
    prx.calls++;
    if (prx.calls == prx.k) {
        prx.paused = 1;
        sem_post(&prx_evt);
        sem_wait(&prx_resume);
    }
}

static void *prx_worker(void *arg) {
    (void)arg;
    parseFrame(prx_job.buf, prx_job.v);
    prx.paused = 0;
    sem_post(&prx_evt);
    return NULL;
}

/* counters read from the implementation's state are logged 31-bit safe: garbage stays a number TLC reads (and rejects) */
static unsigned u31(uint32_t x) { return x > 2000000000u ? 2000000000u : x; }

static void deliver(int id, size_t len, uint8_t fill, const uint8_t *pre, size_t npre, int eq, int all);

static void parse_preempted(uint8_t *buf, vif *v) {
    static int inited = 0;
    if (!inited) { sem_init(&prx_evt, 0, 0); sem_init(&prx_resume, 0, 0); inited = 1; }
    prx.pending = 0;
    prx.calls = 0;
    prx.paused = 0;
    prx_job.buf = buf; prx_job.v = v;
    vp_portcall_hook = prx_hook;
    pthread_attr_t at;
    pthread_attr_init(&at);
    pthread_attr_setstacksize(&at, 8u << 20);
    prx_thread_live = 1;
    if (pthread_create(&prx_thread, &at, prx_worker, NULL) != 0) die("pthread_create");
    sem_wait(&prx_evt);
    if (prx.paused) {
        static vp_saved sv;
        long save_lineno_ev = last_req_ev[v->id];
        vp_save(&sv);
        deliver(prx.b_id, prx.b_len, prx.b_fill, prx.b_pre, prx.b_npre, 0, 0);
        vp_restore(&sv);
        last_req_ev[v->id] = save_lineno_ev;
        vp_fail_alloc_at = plan_alloc; vp_fail_alloc_sticky = plan_sticky; vp_fail_send_mask = plan_send;
        vp_fail_send_all = plan_send_all; vp_fail_get_mask = plan_get;
        sem_post(&prx_resume);
        sem_wait(&prx_evt);
    }
    pthread_join(prx_thread, NULL);
    prx_thread_live = 0;
    vp_portcall_hook = NULL;
}

static void deliver(int id, size_t len, uint8_t fill, const uint8_t *pre, size_t npre, int eq, int all) {
    vif *v = vp_if[id];
    if (!v) die("interface not booted");
    if (npre > v->mtu) npre = v->mtu;
    if (len > v->mtu) len = v->mtu;

    /* receive buffer exactly as the daemons have it: malloc(MTU) */
    uint8_t *buf = malloc(v->mtu);
    memset(buf, fill, v->mtu);
    memcpy(buf, pre, npre);

    int ev = -2;
    vp_cur = v;
    vp_out_begin();
    long live0 = v->live;
    if (all) ensure_extra(id);
    arm_faults();

    if (all) {
        ifextra *x = extra[id];
        ev = derive_session_event(buf, len, x->table, v->mac);
    }
    long pre_calls = -1;
    if (prx.pending && !all) { parse_preempted(buf, v); pre_calls = prx.calls; }
    else parseFrame(buf, v);
    if (all) {
        ifextra *x = extra[id];
        /* embedded entry point: told the length, given exactly that many bytes */
        uint8_t *exact = malloc(len ? len : 1);
        memcpy(exact, buf, len);
        vif *save = vp_cur;
        lltd_esp32_handle_frame(&x->esp, exact, len);
        vp_cur = save;
        free(exact);
        lltd_automata_tick_port port = { v, &x->last_hello_tx, tick_send_hello };
        vp_in_tick = 1;
        automata_tick(x->mapping, x->enumeration, x->table, &port);
        vp_in_tick = 0;
    }
    uint32_t fired = vp_faults_fired, gf = vp_getters_failed;
    long aseq = vp_alloc_seq, sseq = vp_send_seq;
    disarm_faults();
    vp_cur = NULL;

    /* logged prefix: trailing fill bytes are implied */
    size_t keep = npre;
    while (keep > 0 && buf[keep - 1] == fill) keep--;

    fprintf(tr, "{\"e\":\"req\",\"ln\":%ld,\"ifc\":%d,\"eq\":%d,\"all\":%d,\"ev\":%d,\"len\":%zu,\"fill\":%u,\"b\":",
            lineno, id, eq, all, ev, len, fill);
    vp_json_bytes(tr, buf, keep);
    fprintf(tr, ",\"pipe\":[%ld,%ld],\"pcalls\":%ld", pipe_ev, pipe_idx, pre_calls);
    last_req_ev[id] = evno + 1;
    /* projection of the real per-interface state after the request (state comparison with the model) */
    lltd_verif_iface_view view;
    memset(&view, 0, sizeof view);
    int has = lltd_verif_iface_view_get(v, &view, snap_see, SNAP_CAP);
    fprintf(tr, ",\"st\":{\"has\":%d,\"known\":%u,\"real\":", has, view.mapper_known);
    vp_json_bytes(tr, view.mapper_real, 6);
    fprintf(tr, ",\"app\":");
    vp_json_bytes(tr, view.mapper_apparent, 6);
    fprintf(tr, ",\"seq\":%u,\"gt\":%u,\"gq\":%u,\"icon\":%u,\"nsee\":%u,\"nlist\":%u,\"see\":[", view.mapper_seq, view.gen_topology,
            view.gen_quick, view.icon_cached, u31(view.see_count), u31(view.see_listed));
    if (has && view.see_listed <= SNAP_CAP) {
        for (uint32_t i = 0; i < view.see_listed; i++) {
            if (i) fputc(',', tr);
            vp_json_bytes(tr, snap_see[i], 18);
        }
    }
    fprintf(tr, "]}");
    fprintf(tr, ",\"out\":%s,\"live\":%ld,\"live0\":%ld,\"bytes\":%ld,\"flt\":%u,\"gf\":%u,\"na\":%ld,\"ns\":%ld}\n",
            vp_out_json(), v->live, live0, v->bytes, fired, gf, aseq, sseq);
    evno++;
    fflush(tr);
    free(buf);
}

static uint8_t framebuf[16384];

static void do_rx(char **tok, int ntok, int all) {
    if (ntok < 5) die("RX needs: ids len fill hex");
    size_t len = (size_t)strtoul(tok[2], NULL, 0);
    uint8_t fill = (uint8_t)strtoul(tok[3], NULL, 0);
    size_t npre = parse_hex(tok[4], framebuf, sizeof framebuf);
    char *ids = tok[1];
    int first = 1;
    for (char *p = strtok(ids, ","); p; p = strtok(NULL, ",")) {
        deliver(atoi(p), len, fill, framebuf, npre, first ? 0 : 1, all);
        first = 0;
    }
}

/* PRX a b k lenA fillA hexA lenB fillB hexB : interface a's frame, preempted at its k-th port call by
 * interface b's frame (handled from start to end), see parse_preempted */
static void do_prx(char **tok, int ntok) {
    if (ntok < 10) die("PRX needs: a b k lenA fillA hexA lenB fillB hexB");
    static uint8_t fb[16384];
    int a = atoi(tok[1]);
    prx.b_id = atoi(tok[2]);
    if (a == prx.b_id) die("PRX: one receive thread per interface");
    prx.k = strtol(tok[3], NULL, 0);
    size_t lenA = (size_t)strtoul(tok[4], NULL, 0);
    uint8_t fillA = (uint8_t)strtoul(tok[5], NULL, 0);
    size_t npreA = parse_hex(tok[6], framebuf, sizeof framebuf);
    prx.b_len = (size_t)strtoul(tok[7], NULL, 0);
    prx.b_fill = (uint8_t)strtoul(tok[8], NULL, 0);
    prx.b_npre = parse_hex(tok[9], fb, sizeof fb);
    prx.b_pre = fb;
    prx.pending = 1;
    deliver(a, lenA, fillA, framebuf, npreA, 0, 0);
    prx.pending = 0;
}

/* TLV id off fill : the property writers no Hello uses (support URL, UPnP UUID, hardware id, 802.11 medium),
 * each called at offset off of a buffer filled with `fill' (beyond the listed properties: Check id XTLV) */
static void do_tlv(char **tok, int ntok) {
    if (ntok < 4) die("TLV needs: id off fill");
    int id = atoi(tok[1]);
    vif *v = vp_if[id];
    if (!v) die("interface not booted");
    size_t off = (size_t)strtoul(tok[2], NULL, 0);
    uint8_t fill = (uint8_t)strtoul(tok[3], NULL, 0);
    size_t cap = off + 2 + 64 + 40;
    uint8_t *buf = malloc(cap);
    static const char *names[4] = {"support", "uuid", "hwid", "medium"};
    static const char url[] = "https://example.invalid/support";
    for (int w = 0; w < 4; w++) {
        memset(buf, fill, cap);
        vp_cur = v;
        vp_out_begin();
        arm_faults();
        size_t ret = w == 0 ? setSupportInfoTLV(buf, off) : w == 1 ? setUuidTLV(buf, off)
                   : w == 2 ? setHardwareIdTLV(buf, off) : set80211MediumTLV(buf, off, v);
        uint32_t gf = vp_getters_failed;
        disarm_faults();
        vp_cur = NULL;
        if (ret > cap - off) ret = cap - off;          /* never print past the buffer; the monitor rejects the size */
        /* a writer that returns 0 claims to have written nothing it stands for: what it scribbled is not logged as content */
        int clean = 1;
        for (size_t i = 0; i < cap; i++)
            if ((i < off || i >= off + (ret ? ret : (w == 2 ? 66 : 0))) && buf[i] != fill) clean = 0;
        fprintf(tr, "{\"e\":\"tlv\",\"ln\":%ld,\"ifc\":%d,\"w\":\"%s\",\"off\":%zu,\"fill\":%u,\"ret\":%zu,\"clean\":%d,\"gf\":%u,\"b\":",
                lineno, id, names[w], off, fill, ret, clean, gf);
        vp_json_bytes(tr, buf + off, ret);
        fprintf(tr, ",\"url\":");
        vp_json_bytes(tr, (const uint8_t *)url, sizeof url - 1);
        fprintf(tr, ",\"uuid\":");
        vp_json_bytes(tr, vp_cfg.uuid, vp_cfg.uuid_present ? 16 : 0);
        fprintf(tr, ",\"hwid\":");
        vp_json_bytes(tr, vp_cfg.hwid, vp_cfg.hwid_len);
        fprintf(tr, ",\"wifi\":%d,\"phy\":[%u,%u]}\n", v->wifi, v->phy >> 16, v->phy & 0xFFFF);
        evno++;
    }
    fflush(tr);
    free(buf);
}

/* DRAIN id max len fill hex : repeat a Query until the more-flag clears */
static void do_drain(char **tok, int ntok, int large) {
    if (ntok < 6) die("DRAIN needs: id max len fill hex");
    int id = atoi(tok[1]);
    long max = strtol(tok[2], NULL, 0);
    size_t len = (size_t)strtoul(tok[3], NULL, 0);
    uint8_t fill = (uint8_t)strtoul(tok[4], NULL, 0);
    size_t npre = parse_hex(tok[5], framebuf, sizeof framebuf);
    if (npre < (large ? 36u : 32u)) die("DRAIN frame too short");
    unsigned off = 0;
    for (long i = 0; i < max; i++) {
        if (large) { framebuf[34] = (uint8_t)(off >> 8); framebuf[35] = (uint8_t)off; }
        deliver(id, len, fill, framebuf, npre, 0, 0);
        peek_last_tx();
        if (!last_tx_any) break;
        if (last_tx_op != (large ? 0x0C : 0x07)) break;
        unsigned word = ((unsigned)last_tx_b32 << 8) | last_tx_b33;
        if (!(word & 0x8000)) break;
        if (large) {
            unsigned n = word & 0x3FFF;
            if (n == 0) break;
            off += n;
            if (off > 0xFFFF) break;
        }
        /* next request carries the next sequence number */
        unsigned seq = ((unsigned)framebuf[30] << 8) | framebuf[31];
        seq = (seq == 0xFFFF) ? 1 : seq + 1;
        framebuf[30] = (uint8_t)(seq >> 8);
        framebuf[31] = (uint8_t)seq;
    }
}

/* PIPE a b fill : every frame interface a transmitted while serving its last request is
 * delivered, unmodified, to interface b */
static void do_pipe(char **tok, int ntok) {
    if (ntok < 3) die("PIPE needs: a b [fill]");
    int a = atoi(tok[1]), b = atoi(tok[2]);
    uint8_t fill = ntok > 3 ? (uint8_t)strtoul(tok[3], NULL, 0) : 0;
    if (!vp_if[a] || !vp_if[b]) die("interface not booted");
    int n = vp_ntx;
    vp_txrec *copy = calloc((size_t)(n ? n : 1), sizeof *copy);
    for (int i = 0; i < n; i++) {
        copy[i].n = vp_txs[i].n;
        copy[i].item = vp_txs[i].item;
        copy[i].b = malloc(copy[i].n ? copy[i].n : 1);
        memcpy(copy[i].b, vp_txs[i].b, copy[i].n);
    }
    long src_ev = last_req_ev[a];
    for (int i = 0; i < n; i++) {
        pipe_ev = src_ev;
        pipe_idx = copy[i].item;
        deliver(b, copy[i].n, fill, copy[i].b, copy[i].n, 0, 0);
        free(copy[i].b);
    }
    pipe_ev = 0;
    pipe_idx = 0;
    free(copy);
}

/* FLOOD id n seed : n Probes with pairwise distinct real sources addressed to the
 * interface, no Query; only a summary is logged */
static void do_flood(char **tok, int ntok) {
    if (ntok < 4) die("FLOOD needs: id n seed");
    int id = atoi(tok[1]);
    long n = strtol(tok[2], NULL, 0);
    unsigned seed = (unsigned)strtoul(tok[3], NULL, 0);
    vif *v = vp_if[id];
    if (!v) die("interface not booted");
    uint8_t *buf = malloc(v->mtu);
    long max1 = 0, max2 = 0, txs = 0;
    vp_record_bytes = 0;
    for (long i = 0; i < n; i++) {
        memset(buf, 0, v->mtu);
        uint8_t *b = buf;
        memcpy(b, v->mac, 6);
        b[6] = 0x02; b[7] = (uint8_t)(seed >> 8); b[8] = (uint8_t)seed; b[9] = (uint8_t)(i >> 16); b[10] = (uint8_t)(i >> 8); b[11] = (uint8_t)i;
        b[12] = 0x88; b[13] = 0xD9; b[14] = 1; b[15] = 0; b[16] = 0; b[17] = (i & 1) ? 4 : 3;
        memcpy(b + 18, v->mac, 6);
        memcpy(b + 24, b + 6, 6);
        vp_cur = v;
        vp_out_begin();
        arm_faults();
        parseFrame(buf, v);
        disarm_faults();
        vp_cur = NULL;
        txs += vp_out_count();
        if (i < n / 2) { if (v->live > max1) max1 = v->live; }
        else           { if (v->live > max2) max2 = v->live; }
    }
    vp_record_bytes = 1;
    free(buf);
    fprintf(tr, "{\"e\":\"flood\",\"ln\":%ld,\"ifc\":%d,\"n\":%ld,\"max1\":%ld,\"max2\":%ld,\"live\":%ld,\"bytes\":%ld,\"txs\":%ld}\n",
            lineno, id, n, max1, max2, v->live, v->bytes, txs);
    evno++;
    fflush(tr);
}

int main(int argc, char **argv) {
    FILE *in = stdin;
    tr = stdout;
    if (argc > 1 && strcmp(argv[1], "-") != 0) { in = fopen(argv[1], "r"); if (!in) { perror(argv[1]); return 2; } }
    if (argc > 2) { tr = fopen(argv[2], "w"); if (!tr) { perror(argv[2]); return 2; } }
    vp_sys.fill = 0x33;

    static char line[70000];
    char *tok[64];
    while (fgets(line, sizeof line, in)) {
        lineno++;
        int ntok = 0;
        for (char *p = strtok(line, " \t\r\n"); p && ntok < 64; p = strtok(NULL, " \t\r\n")) tok[ntok++] = p;
        if (ntok == 0 || tok[0][0] == '#') continue;
        if (!strcmp(tok[0], "CFG")) do_cfg(tok, ntok);
        else if (!strcmp(tok[0], "IF")) do_boot(tok, ntok, 0);
        else if (!strcmp(tok[0], "SET")) do_boot(tok, ntok, 1);
        else if (!strcmp(tok[0], "RX")) do_rx(tok, ntok, 0);
        else if (!strcmp(tok[0], "RXALL")) do_rx(tok, ntok, 1);
        else if (!strcmp(tok[0], "DRAIN")) do_drain(tok, ntok, 0);
        else if (!strcmp(tok[0], "LDRAIN")) do_drain(tok, ntok, 1);
        else if (!strcmp(tok[0], "FLOOD")) do_flood(tok, ntok);
        else if (!strcmp(tok[0], "PIPE")) do_pipe(tok, ntok);
        else if (!strcmp(tok[0], "PRX")) do_prx(tok, ntok);
        else if (!strcmp(tok[0], "TLV")) do_tlv(tok, ntok);
        else if (!strcmp(tok[0], "ADV")) vp_now_ms += strtoull(tok[1], NULL, 0);
        else if (!strcmp(tok[0], "FAULT")) {
            plan_alloc = kvl(tok, ntok, "alloc", 0);
            plan_sticky = (int)kvl(tok, ntok, "sticky", 0);
            const char *s = kv(tok, ntok, "send");
            plan_send_all = (s && !strcmp(s, "all"));
            plan_send = (s && !plan_send_all) ? strtoull(s, NULL, 0) : 0;
            const char *g = kv(tok, ntok, "get");
            plan_get = g ? (uint32_t)strtoul(g, NULL, 0) : 0;
        } else if (!strcmp(tok[0], "CLEAR")) {
            plan_alloc = 0; plan_sticky = 0; plan_send = 0; plan_send_all = 0; plan_get = 0;
        } else if (!strcmp(tok[0], "MARK")) {
            vp_now_ms = 1000;      /* scenario boundary: every scenario starts at the same virtual time */
            fprintf(tr, "{\"e\":\"mark\",\"ln\":%ld,\"name\":\"%s\"}\n", lineno, ntok > 1 ? tok[1] : "");
            evno++;
        } else die("unknown directive");
    }
    fprintf(tr, "{\"e\":\"end\",\"ln\":%ld}\n", lineno);
    fclose(tr);
    return 0;
}
