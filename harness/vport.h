/* Verification port: the only thing the protocol core can touch.
 * Implements every function of lltdPort.h, records what the core does to its
 * environment, keeps an allocation ledger, a virtual clock and a fault plan. */
#ifndef VPORT_H
#define VPORT_H

#include <stddef.h>
#include <stdint.h>
#include <stdio.h>

#define VP_MAX_IF 8

/* getter ids for the failure mask */
enum {
    VG_MTU = 0, VG_MAC, VG_ICON, VG_NAME, VG_HOSTNAME, VG_HWID, VG_IFTYPE, VG_IPV4,
    VG_IPV6, VG_SPEED, VG_WMODE, VG_BSSID, VG_SSID, VG_RATE, VG_RSSI, VG_PHY, VG_UUID,
    VG_COUNT
};

typedef struct vif {
    int      id;          /* 1-based; 0 = unused slot */
    uint8_t  mac[6];
    size_t   mtu;
    int      wifi;
    uint8_t  fill;        /* byte pattern of freshly allocated memory while serving this interface */
    uint32_t flags;       /* characteristics flags (16 significant bits) */
    uint32_t iftype;
    uint8_t  ipv4[4];     /* network order, as supplied */
    uint8_t  ipv6[16];
    uint32_t speed;       /* units of 100 bit/s */
    uint8_t  wmode;
    uint8_t  bssid[6];
    uint8_t  ssid[64];
    size_t   ssid_len;
    uint16_t rate;
    int8_t   rssi;
    uint32_t phy;
    /* ledger */
    long     live;
    long     bytes;
    long     hiwater;
} vif;

typedef struct vcfg {
    uint8_t  hostname[96];
    size_t   hostname_len;
    size_t   icon_size;  int icon_salt;  int icon_present;
    size_t   name_size;  int name_salt;  int name_present;
    uint8_t  hwid[64];   size_t hwid_len;
    uint8_t  uuid[16];   int uuid_present;
} vcfg;

extern vif   vp_sys;                /* pseudo interface 0: allocations made by the harness itself */
extern vif  *vp_if[VP_MAX_IF + 1];   /* current scenario's interfaces by id */
extern vcfg  vp_cfg;
extern vif  *vp_cur;               /* interface currently being served (for fill + ledger) */
extern uint64_t vp_now_ms;         /* virtual clock */

/* fault plan (applies to the request being served) */
extern long     vp_fail_alloc_at;  /* fail the k-th allocation from now (1-based); 0 = never */
extern int      vp_fail_alloc_sticky; /* if set, every allocation from the k-th on fails */
extern uint64_t vp_fail_send_mask; /* bit j-1 set: refuse the j-th transmit of this request */
extern int      vp_fail_send_all;
extern uint32_t vp_fail_get_mask;  /* bit VG_*: that getter fails */
extern long     vp_alloc_seq;      /* allocations attempted during this request */
extern long     vp_send_seq;       /* transmits attempted during this request */
extern uint32_t vp_faults_fired;   /* bit0 alloc, bit1 send, bit2 getter */
extern uint32_t vp_getters_failed; /* VG_* bits that actually failed during this request */

/* recording of the reaction (sleep / tx items) of the request being served */
void vp_out_begin(void);
const char *vp_out_json(void);     /* "[...]" */
long vp_out_count(void);
extern int vp_record_bytes;        /* 0: record only lengths (flood mode) */
extern int vp_in_tick;             /* set by drivers while inside automata_tick */
extern int vp_thread_mode;

/* raw copies of the frames transmitted during the current request (for PIPE) */
#define VP_MAX_TXS 2048
typedef struct { uint8_t *b; size_t n; long item; } vp_txrec;
typedef struct {
    vif *cur; char *ob; size_t ob_len, ob_cap; long ob_items;
    vp_txrec txs[VP_MAX_TXS]; int ntx;
    long alloc_seq, send_seq; uint32_t fired, gfailed;
} vp_saved;
void vp_save(vp_saved *sv);
void vp_restore(const vp_saved *sv);
extern void (*vp_portcall_hook)(void);
extern vp_txrec vp_txs[VP_MAX_TXS];
extern int      vp_ntx;

uint8_t vp_data_byte(int salt, size_t i);
long vp_total_live(void);

void vp_json_bytes(FILE *f, const uint8_t *b, size_t n);

#endif
