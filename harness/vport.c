#include "vport.h"

#include <stdarg.h>
#include <stdlib.h>
#include <string.h>

#include "lltdPort.h"

#if defined(__has_feature)
#if __has_feature(memory_sanitizer)
#include <sanitizer/msan_interface.h>
#define VP_MSAN 1
#endif
#endif

vif      vp_sys;
vif     *vp_if[VP_MAX_IF + 1];
vcfg     vp_cfg;
vif     *vp_cur = NULL;
uint64_t vp_now_ms = 1000;

long     vp_fail_alloc_at = 0;
int      vp_fail_alloc_sticky = 0;
uint64_t vp_fail_send_mask = 0;
int      vp_fail_send_all = 0;
uint32_t vp_fail_get_mask = 0;
long     vp_alloc_seq = 0;
long     vp_send_seq = 0;
uint32_t vp_faults_fired = 0;
uint32_t vp_getters_failed = 0;
int      vp_record_bytes = 1;
int      vp_in_tick = 0;
int      vp_thread_mode = 0;   /* several receive threads: no shared recorder/ledger/clock in the port */

/* called on entry to every port function that reaches the environment: lets a driver suspend the calling
 * receive thread there (forced preemption) */
void (*vp_portcall_hook)(void) = NULL;
#define VP_HOOK() do { if (vp_portcall_hook) vp_portcall_hook(); } while (0)

/* default for drivers that do not schedule threads */
__attribute__((weak)) void lltd_verif_yield(const char *point, void *iface_ctx) { (void)point; (void)iface_ctx; }

/* ---------- ledger: side table pointer -> (size, interface) ---------- */
#define LT_BITS 20
#define LT_SIZE (1u << LT_BITS)
typedef struct { void *p; size_t n; vif *v; } lt_ent;
static lt_ent *lt = NULL;
static long lt_used = 0;
#define LT_TOMB ((void *)1)

static unsigned lt_hash(void *p) {
    uint64_t x = (uint64_t)(uintptr_t)p;
    x ^= x >> 33; x *= 0xff51afd7ed558ccdULL; x ^= x >> 33;
    return (unsigned)(x & (LT_SIZE - 1));
}

static void lt_put(void *p, size_t n, vif *v) {
    if (!lt) {
        lt = calloc(LT_SIZE, sizeof(lt_ent));
        if (!lt) { fprintf(stderr, "HARNESS: ledger table\n"); exit(2); }
    }
    if (lt_used > (long)(LT_SIZE / 2)) { fprintf(stderr, "HARNESS: ledger table full\n"); exit(2); }
    unsigned h = lt_hash(p);
    while (lt[h].p && lt[h].p != LT_TOMB) h = (h + 1) & (LT_SIZE - 1);
    lt[h].p = p; lt[h].n = n; lt[h].v = v; lt_used++;
}

static lt_ent *lt_get(void *p) {
    if (!lt) return NULL;
    unsigned h = lt_hash(p);
    while (lt[h].p) {
        if (lt[h].p == p) return &lt[h];
        h = (h + 1) & (LT_SIZE - 1);
    }
    return NULL;
}

long vp_total_live(void) {
    long t = vp_sys.live;
    for (int i = 0; i <= VP_MAX_IF; i++) if (vp_if[i]) t += vp_if[i]->live;
    return t;
}

/* ---------- reaction recording ---------- */
static char  *ob = NULL;
static size_t ob_len = 0, ob_cap = 0;
static long   ob_items = 0;

static void ob_add(const char *s, size_t n) {
    if (ob_len + n + 1 > ob_cap) {
        ob_cap = (ob_cap ? ob_cap * 2 : 65536) + n;
        ob = realloc(ob, ob_cap);
        if (!ob) { fprintf(stderr, "HARNESS: oom\n"); exit(2); }
    }
    memcpy(ob + ob_len, s, n);
    ob_len += n;
    ob[ob_len] = 0;
}

vp_txrec vp_txs[VP_MAX_TXS];
int      vp_ntx = 0;

void vp_out_begin(void) {
    ob_len = 0; ob_items = 0; ob_add("[", 1);
    for (int i = 0; i < vp_ntx; i++) { free(vp_txs[i].b); vp_txs[i].b = NULL; }
    vp_ntx = 0;
}
const char *vp_out_json(void) {
    static char *copy = NULL;
    free(copy);
    copy = malloc(ob_len + 2);
    memcpy(copy, ob, ob_len);
    copy[ob_len] = ']';
    copy[ob_len + 1] = 0;
    return copy;
}
long vp_out_count(void) { return ob_items; }

/* the per-request part of the port's state, moved out and back in around a nested request */
void vp_save(vp_saved *sv) {
    sv->cur = vp_cur; sv->ob = ob; sv->ob_len = ob_len; sv->ob_cap = ob_cap; sv->ob_items = ob_items;
    memcpy(sv->txs, vp_txs, sizeof vp_txs); sv->ntx = vp_ntx;
    sv->alloc_seq = vp_alloc_seq; sv->send_seq = vp_send_seq; sv->fired = vp_faults_fired; sv->gfailed = vp_getters_failed;
    ob = NULL; ob_len = ob_cap = 0; ob_items = 0;
    memset(vp_txs, 0, sizeof vp_txs); vp_ntx = 0;
}
void vp_restore(const vp_saved *sv) {
    for (int i = 0; i < vp_ntx; i++) free(vp_txs[i].b);
    free(ob);
    vp_cur = sv->cur; ob = sv->ob; ob_len = sv->ob_len; ob_cap = sv->ob_cap; ob_items = sv->ob_items;
    memcpy(vp_txs, sv->txs, sizeof vp_txs); vp_ntx = sv->ntx;
    vp_alloc_seq = sv->alloc_seq; vp_send_seq = sv->send_seq; vp_faults_fired = sv->fired; vp_getters_failed = sv->gfailed;
}

void vp_json_bytes(FILE *f, const uint8_t *b, size_t n) {
    fputc('[', f);
    for (size_t i = 0; i < n; i++) {
        if (i) fputc(',', f);
        fprintf(f, "%u", b[i]);
    }
    fputc(']', f);
}

uint8_t vp_data_byte(int salt, size_t i) {
    return (uint8_t)((salt + 37 * i + 11 * (i / 256)) & 0xFF);
}

static int getter_fails(int g) {
    if (vp_fail_get_mask & (1u << g)) {
        vp_faults_fired |= 4;
        vp_getters_failed |= (1u << g);
        return 1;
    }
    return 0;
}

/* ---------- the port API ---------- */
uint64_t lltd_port_monotonic_seconds(void) { VP_HOOK(); return vp_now_ms / 1000ULL; }
uint64_t lltd_port_monotonic_milliseconds(void) { VP_HOOK(); return vp_now_ms; }

void *lltd_port_malloc(size_t size) {
    VP_HOOK();
    if (vp_thread_mode) {
        void *q = malloc(size ? size : 1);
        if (q) memset(q, 0xA5, size);
        return q;
    }
    vp_alloc_seq++;
    if (vp_fail_alloc_at > 0 &&
        (vp_alloc_seq == vp_fail_alloc_at || (vp_fail_alloc_sticky && vp_alloc_seq > vp_fail_alloc_at))) {
        vp_faults_fired |= 1;
        return NULL;
    }
    void *p = malloc(size ? size : 1);
    if (!p) { fprintf(stderr, "HARNESS: host malloc failed\n"); exit(2); }
    vif *v = vp_cur ? vp_cur : &vp_sys;
#ifndef VP_MSAN
    memset(p, v->fill, size);      /* MSan build: fresh memory stays uninitialised and is tracked by the tool */
#endif
    lt_put(p, size, v);
    v->live++;
    v->bytes += (long)size;
    if (v->live > v->hiwater) v->hiwater = v->live;
    return p;
}

void lltd_port_free(void *ptr) {
    VP_HOOK();
    if (!ptr) return;
    if (vp_thread_mode) { free(ptr); return; }
    lt_ent *e = lt_get(ptr);
    if (!e) {
        /* not ours: let the allocator / ASan judge it (invalid or double free) */
        free(ptr);
        return;
    }
    vif *v = e->v;
    v->live--;
    v->bytes -= (long)e->n;
    e->p = LT_TOMB;
    lt_used--;
    free(ptr);
}

void *lltd_port_memset(void *ptr, int value, size_t num) { return memset(ptr, value, num); }
void *lltd_port_memcpy(void *d, const void *s, size_t num) { return memcpy(d, s, num); }
int lltd_port_memcmp(const void *a, const void *b, size_t num) { return memcmp(a, b, num); }

void lltd_port_sleep_ms(uint32_t ms) {
    VP_HOOK();
    if (vp_thread_mode) return;
    char tmp[64];
    /* logged 31-bit safe (TLC integers); the clock still advances by the real value */
    int n = snprintf(tmp, sizeof tmp, "%s{\"k\":\"s\",\"ms\":%u}", ob_items ? "," : "", ms > 2000000000u ? 2000000000u : ms);
    ob_add(tmp, (size_t)n);
    ob_items++;
    vp_now_ms += ms;
}

int lltd_port_send_frame(void *iface_ctx, const void *frame, size_t frame_len) {
    VP_HOOK();
    vif *v = (vif *)iface_ctx;
    int rc = 0;
    if (vp_thread_mode) {
        /* touch the frame, count it on the interface (owned by the calling thread) */
        unsigned acc = 0;
        for (size_t i = 0; i < frame_len; i++) acc += ((const uint8_t *)frame)[i];
        if (v) v->hiwater += 1 + (long)(acc & 0);
        return 0;
    }
    vp_send_seq++;
    if (vp_fail_send_all || (vp_send_seq <= 64 && (vp_fail_send_mask & (1ULL << (vp_send_seq - 1))))) {
        rc = -1;
        vp_faults_fired |= 2;
    }
#ifdef VP_MSAN
    if (frame) __msan_check_mem_is_initialized(frame, frame_len);   /* every transmitted byte must be initialised */
#endif
    char tmp[128];
    int n = snprintf(tmp, sizeof tmp, "%s{\"k\":\"t\",\"ifc\":%d,\"rc\":%d,\"tick\":%d,\"n\":%zu,\"b\":[",
                     ob_items ? "," : "", v ? v->id : 0, rc, vp_in_tick, frame_len);
    ob_add(tmp, (size_t)n);
    if (frame && vp_record_bytes) {
        const uint8_t *b = (const uint8_t *)frame;
        /* touch every byte (lets ASan/MSan see the whole transmitted range) */
        for (size_t i = 0; i < frame_len; i++) {
            n = snprintf(tmp, sizeof tmp, i ? ",%u" : "%u", b[i]);
            ob_add(tmp, (size_t)n);
        }
    }
    ob_add("]}", 2);
    ob_items++;
    if (frame && vp_record_bytes && rc == 0 && vp_ntx < VP_MAX_TXS) {
        vp_txs[vp_ntx].b = malloc(frame_len ? frame_len : 1);
        memcpy(vp_txs[vp_ntx].b, frame, frame_len);
        vp_txs[vp_ntx].n = frame_len;
        vp_txs[vp_ntx].item = ob_items;
        vp_ntx++;
    }
    return rc;
}

int lltd_port_get_mtu(void *iface_ctx, size_t *out_mtu) {
    VP_HOOK();
    vif *v = (vif *)iface_ctx;
    if (!v || !out_mtu || getter_fails(VG_MTU)) return -1;
    *out_mtu = v->mtu;
    return 0;
}

static int make_data(void **out_data, size_t *out_size, size_t size, int salt) {
    uint8_t *p = lltd_port_malloc(size ? size : 1);
    if (!p) { *out_data = NULL; *out_size = 0; return -1; }
    for (size_t i = 0; i < size; i++) p[i] = vp_data_byte(salt, i);
    *out_data = p;
    *out_size = size;
    return 0;
}

int lltd_port_get_icon_image(void **out_data, size_t *out_size) {
    VP_HOOK();
    if (!out_data || !out_size) return -1;
    if (!vp_cfg.icon_present || getter_fails(VG_ICON)) { *out_data = NULL; *out_size = 0; return -1; }
    return make_data(out_data, out_size, vp_cfg.icon_size, vp_cfg.icon_salt);
}

int lltd_port_get_friendly_name(void **out_data, size_t *out_size) {
    VP_HOOK();
    if (!out_data || !out_size) return -1;
    if (!vp_cfg.name_present || getter_fails(VG_NAME)) { *out_data = NULL; *out_size = 0; return -1; }
    return make_data(out_data, out_size, vp_cfg.name_size, vp_cfg.name_salt);
}

size_t lltd_port_get_hostname(void *dst, size_t dst_len) {
    VP_HOOK();
    if (!dst || dst_len == 0 || getter_fails(VG_HOSTNAME)) return 0;
    size_t n = vp_cfg.hostname_len;
    if (n > dst_len) n = dst_len;
    memcpy(dst, vp_cfg.hostname, n);
    return n;
}

size_t lltd_port_get_support_url(void *dst, size_t dst_len) {
    VP_HOOK();
    static const char url[] = "https://example.invalid/support";
    if (!dst || dst_len == 0) return 0;
    size_t n = sizeof(url) - 1;
    if (n > dst_len) n = dst_len;
    memcpy(dst, url, n);
    return n;
}

int lltd_port_get_upnp_uuid(uint8_t out_uuid[16]) {
    VP_HOOK();
    if (!vp_cfg.uuid_present || getter_fails(VG_UUID)) return -1;
    memcpy(out_uuid, vp_cfg.uuid, 16);
    return 0;
}

size_t lltd_port_get_hw_id(void *dst, size_t dst_len) {
    VP_HOOK();
    if (!dst || dst_len == 0 || getter_fails(VG_HWID)) return 0;
    size_t n = vp_cfg.hwid_len;
    if (n > dst_len) n = dst_len;
    memcpy(dst, vp_cfg.hwid, n);
    return n;
}

int lltd_port_get_mac_address(void *iface_ctx, ethernet_address_t *out_mac) {
    VP_HOOK();
    vif *v = (vif *)iface_ctx;
    if (!v || !out_mac || getter_fails(VG_MAC)) return -1;
    memcpy(out_mac->a, v->mac, 6);
    return 0;
}

uint32_t lltd_port_get_characteristics_flags(void *iface_ctx) {
    VP_HOOK();
    vif *v = (vif *)iface_ctx;
    return v ? v->flags : 0;
}

int lltd_port_get_if_type(void *iface_ctx, uint32_t *out) {
    VP_HOOK();
    vif *v = (vif *)iface_ctx;
    if (!v || !out || getter_fails(VG_IFTYPE)) return -1;
    *out = v->iftype;
    return 0;
}

int lltd_port_get_ipv4_address(void *iface_ctx, uint32_t *out) {
    VP_HOOK();
    vif *v = (vif *)iface_ctx;
    if (!v || !out || getter_fails(VG_IPV4)) return -1;
    memcpy(out, v->ipv4, 4);
    return 0;
}

int lltd_port_get_ipv6_address(void *iface_ctx, uint8_t out[16]) {
    VP_HOOK();
    vif *v = (vif *)iface_ctx;
    if (!v || !out || getter_fails(VG_IPV6)) return -1;
    memcpy(out, v->ipv6, 16);
    return 0;
}

int lltd_port_get_link_speed_100bps(void *iface_ctx, uint32_t *out) {
    VP_HOOK();
    vif *v = (vif *)iface_ctx;
    if (!v || !out || getter_fails(VG_SPEED)) return -1;
    *out = v->speed;
    return 0;
}

int lltd_port_get_wifi_mode(void *iface_ctx, uint8_t *out) {
    VP_HOOK();
    vif *v = (vif *)iface_ctx;
    if (!v || !out || !v->wifi) return -1;
    if (getter_fails(VG_WMODE)) return -1;
    *out = v->wmode;
    return 0;
}

int lltd_port_get_bssid(void *iface_ctx, uint8_t out[6]) {
    VP_HOOK();
    vif *v = (vif *)iface_ctx;
    if (!v || !out || !v->wifi || getter_fails(VG_BSSID)) return -1;
    memcpy(out, v->bssid, 6);
    return 0;
}

size_t lltd_port_get_ssid(void *iface_ctx, void *dst, size_t dst_len) {
    VP_HOOK();
    vif *v = (vif *)iface_ctx;
    if (!v || !dst || !v->wifi || getter_fails(VG_SSID)) return 0;
    size_t n = v->ssid_len;
    if (n > dst_len) n = dst_len;
    memcpy(dst, v->ssid, n);
    return n;
}

int lltd_port_get_wifi_max_rate_0_5mbps(void *iface_ctx, uint16_t *out) {
    VP_HOOK();
    vif *v = (vif *)iface_ctx;
    if (!v || !out || !v->wifi || getter_fails(VG_RATE)) return -1;
    *out = v->rate;
    return 0;
}

int lltd_port_get_wifi_rssi_dbm(void *iface_ctx, int8_t *out) {
    VP_HOOK();
    vif *v = (vif *)iface_ctx;
    if (!v || !out || !v->wifi || getter_fails(VG_RSSI)) return -1;
    *out = v->rssi;
    return 0;
}

int lltd_port_get_wifi_phy_medium(void *iface_ctx, uint32_t *out) {
    VP_HOOK();
    vif *v = (vif *)iface_ctx;
    if (!v || !out || !v->wifi || getter_fails(VG_PHY)) return -1;
    *out = v->phy;
    return 0;
}

/* format the message so that a bad format/argument pair is seen by the sanitizers */
static void vlog(const char *fmt, va_list ap) {
    char buf[1024];
    if (!fmt || vp_thread_mode) return;
    vsnprintf(buf, sizeof buf, fmt, ap);
    static int want = -1;
    if (want < 0) want = getenv("VP_LOG") ? 1 : 0;
    if (want) fprintf(stderr, "core: %s\n", buf);
}
void lltd_port_log_debug(const char *fmt, ...) { va_list ap; va_start(ap, fmt); vlog(fmt, ap); va_end(ap); }
void lltd_port_log_warning(const char *fmt, ...) { va_list ap; va_start(ap, fmt); vlog(fmt, ap); va_end(ap); }
