/* Two (or three) receive threads, each serving its own interface, as every daemon does.
 *
 *   run_registry sched <script> <trace>   forced schedules: each SCHED line is a sequence of
 *        "<thread>:<step>" entries produced by TLC from Registry.tla; the scheduler releases one
 *        thread at a time from the yield hooks of lltd_state_for_iface
 *   run_registry race <frames-per-thread> <trace> <mode>   threads released together by a barrier
 *        (build with -fsanitize=thread); mode "first" = the first frames race, mode "warm" = every
 *        interface has been registered (sequentially) before the threads start
 */
#define _GNU_SOURCE
#include <pthread.h>
#include <semaphore.h>
#include <stdio.h>
#include <stdlib.h>
#include <string.h>
#include <time.h>

#include "vport.h"
#include "lltdPort.h"
#include "lltdBlock.h"

size_t lltd_verif_registry_snapshot(void **out_ctx, size_t cap);

#define MAXT 3
static int nthreads = 2;
static int forcing = 0;
static vif *ifs[MAXT + 1];
static sem_t go[MAXT + 1], arrived[MAXT + 1];
static volatile int done[MAXT + 1];
static volatile int freerun = 0;
static int calls = 2;

/* what each thread observed: per call, did a Hello leave? */
static int replied[MAXT + 1][8];
static char steps[8192];
static size_t steps_len;
static int nsteps;
static pthread_mutex_t log_mu = PTHREAD_MUTEX_INITIALIZER;

static int tid_of(void *ctx) {
    for (int t = 1; t <= nthreads; t++) if ((void *)ifs[t] == ctx) return t;
    return 0;
}

void lltd_verif_yield(const char *point, void *iface_ctx) {
    if (!forcing) return;
    int t = tid_of(iface_ctx);
    if (!t) return;
    const char *name = point + 9;   /* after "registry." */
    if (!strcmp(name, "published")) return;      /* not a scheduling point of the model */
    if (!freerun) {
        sem_post(&arrived[t]);
        sem_wait(&go[t]);
    }
    pthread_mutex_lock(&log_mu);
    steps_len += (size_t)snprintf(steps + steps_len, sizeof steps - steps_len, "%s[%d,\"%s\"]", nsteps ? "," : "", t, name);
    nsteps++;
    pthread_mutex_unlock(&log_mu);
}

static void mk_discover(uint8_t *b, size_t mtu, const uint8_t *mapper, unsigned gen) {
    memset(b, 0, mtu);
    memset(b, 0xFF, 6);
    memcpy(b + 6, mapper, 6);
    b[12] = 0x88; b[13] = 0xD9; b[14] = 1; b[15] = 0; b[16] = 0; b[17] = 0;
    memset(b + 18, 0xFF, 6);
    memcpy(b + 24, mapper, 6);
    b[30] = 0; b[31] = 1; b[32] = (uint8_t)(gen >> 8); b[33] = (uint8_t)gen; b[34] = 0; b[35] = 0;
}

/* thread-local view of the reaction: the port's recorder is not thread safe, so the forced mode
 * only counts transmits per interface through a per-interface counter kept here */
static _Thread_local int my_tid;

static void *worker(void *arg) {
    int t = (int)(long)arg;
    my_tid = t;
    vif *v = ifs[t];
    uint8_t *buf = malloc(v->mtu);
    for (int k = 0; k < calls; k++) {
        /* call k comes from mapper k: a retained record makes every call but the first go unanswered */
        uint8_t m[6] = {0x02, 0xBB, 0, 0, (uint8_t)t, (uint8_t)(0xA0 + k)};
        mk_discover(buf, v->mtu, m, 0x100 + (unsigned)k);
        long before = v->hiwater;   /* reused as per-interface transmit counter in this driver */
        parseFrame(buf, v);
        replied[t][k] = (v->hiwater != before);
    }
    free(buf);
    done[t] = 1;
    sem_post(&arrived[t]);
    return NULL;
}

static int wait_arrived(int t, int ms) {
    struct timespec ts;
    clock_gettime(CLOCK_REALTIME, &ts);
    ts.tv_sec += ms / 1000;
    ts.tv_nsec += (long)(ms % 1000) * 1000000L;
    if (ts.tv_nsec >= 1000000000L) { ts.tv_sec++; ts.tv_nsec -= 1000000000L; }
    return sem_timedwait(&arrived[t], &ts);
}

static vif *mk_if(int id) {
    vif *v = calloc(1, sizeof *v);
    v->id = id;
    v->mtu = 1500;
    v->fill = (uint8_t)(0xA0 + id);
    uint8_t m[6] = {0x02, 0xAA, 0, 0, 0, (uint8_t)id};
    memcpy(v->mac, m, 6);
    return v;
}

/* ---- forced schedules */
static int run_sched(const char *script, const char *trace) {
    FILE *in = fopen(script, "r");
    FILE *tr = fopen(trace, "w");
    if (!in || !tr) { perror("open"); return 2; }
    static char line[65536];
    long lineno = 0;
    forcing = 1;
    while (fgets(line, sizeof line, in)) {
        lineno++;
        if (strncmp(line, "SCHED", 5) != 0) {
            if (!strncmp(line, "THREADS", 7)) nthreads = atoi(line + 8);
            if (!strncmp(line, "CALLS", 5)) calls = atoi(line + 6);
            continue;
        }
        /* fresh interfaces (fresh context pointers) for every schedule */
        steps_len = 0; nsteps = 0; steps[0] = 0; freerun = 0;
        pthread_t th[MAXT + 1];
        for (int t = 1; t <= nthreads; t++) {
            ifs[t] = mk_if(t);
            vp_if[t] = ifs[t];
            sem_init(&go[t], 0, 0);
            sem_init(&arrived[t], 0, 0);
            done[t] = 0;
            memset(replied[t], 0, sizeof replied[t]);
        }
        for (int t = 1; t <= nthreads; t++) pthread_create(&th[t], NULL, worker, (void *)(long)t);
        int infeasible = 0;
        for (int t = 1; t <= nthreads; t++) if (wait_arrived(t, 5000) != 0) infeasible = 1;
        char *p = line + 5;
        while (!infeasible && *p) {
            while (*p == ' ') p++;
            if (*p < '0' || *p > '9') break;
            int t = atoi(p);
            while (*p && *p != ' ') p++;
            if (t < 1 || t > nthreads || done[t]) { infeasible = 1; break; }
            sem_post(&go[t]);
            if (wait_arrived(t, 3000) != 0) { infeasible = 1; break; }   /* blocked: e.g. behind a lock */
        }
        /* let everything run to completion */
        freerun = 1;
        for (int i = 0; i < 64; i++) for (int t = 1; t <= nthreads; t++) sem_post(&go[t]);
        for (int t = 1; t <= nthreads; t++) pthread_join(th[t], NULL);

        void *snap[16];
        size_t n = lltd_verif_registry_snapshot(snap, 16);
        fprintf(tr, "{\"e\":\"sched\",\"ln\":%ld,\"threads\":%d,\"calls\":%d,\"infeasible\":%d,\"steps\":[%s],\"reach\":[",
                lineno, nthreads, calls, infeasible, steps);
        int first = 1;
        for (size_t i = 0; i < n && i < 16; i++) {
            int t = tid_of(snap[i]);
            if (t) { fprintf(tr, "%s%d", first ? "" : ",", t); first = 0; }
        }
        fprintf(tr, "],\"replied\":[");
        for (int t = 1; t <= nthreads; t++) {
            fprintf(tr, "%s[", t > 1 ? "," : "");
            for (int k = 0; k < calls; k++) fprintf(tr, "%s%d", k ? "," : "", replied[t][k]);
            fprintf(tr, "]");
        }
        fprintf(tr, "]}\n");
        fflush(tr);
    }
    fprintf(tr, "{\"e\":\"end\",\"ln\":%ld}\n", lineno);
    fclose(tr);
    return 0;
}

/* ---- race detection: threads released together by a barrier */
static pthread_barrier_t bar;
static int race_frames = 50;

static void *racer(void *arg) {
    int t = (int)(long)arg;
    vif *v = ifs[t];
    uint8_t *buf = malloc(v->mtu);
    uint8_t m[6] = {0x02, 0xBB, 0, 0, (uint8_t)t, 0xA0};
    pthread_barrier_wait(&bar);
    for (int i = 0; i < race_frames; i++) {
        switch (i % 6) {
        case 5:   /* emit: two emitees, then the ACK */
            mk_discover(buf, v->mtu, m, 7);
            buf[17] = 2; memcpy(buf, v->mac, 6); memcpy(buf + 18, v->mac, 6);
            buf[30] = 0; buf[31] = (uint8_t)(1 + (i & 0x7F)); buf[32] = 0; buf[33] = 2;
            buf[34] = 1; buf[35] = 1; memcpy(buf + 36, v->mac, 6); memset(buf + 42, 0x20 + t, 6);
            buf[48] = 0; buf[49] = 0; memcpy(buf + 50, v->mac, 6); memset(buf + 56, 0x30 + t, 6);
            break;
        case 0: mk_discover(buf, v->mtu, m, 7); break;
        case 1: mk_discover(buf, v->mtu, m, 7); buf[17] = 4; memcpy(buf + 18, v->mac, 6); buf[24 + 5] = (uint8_t)i; break; /* probe */
        case 2: mk_discover(buf, v->mtu, m, 7); buf[17] = 6; memcpy(buf, v->mac, 6); memcpy(buf + 18, v->mac, 6); break;        /* query */
        case 3: mk_discover(buf, v->mtu, m, 7); buf[17] = 11; buf[32] = 0x11; buf[33] = 0; buf[34] = 0; buf[35] = 0; break;     /* large */
        default: mk_discover(buf, v->mtu, m, 7); buf[17] = 8; break;                                                           /* reset */
        }
        parseFrame(buf, v);
    }
    free(buf);
    return NULL;
}

static int run_race(int frames, const char *trace, const char *mode) {
    race_frames = frames;
    forcing = 0;
    pthread_t th[MAXT + 1];
    pthread_barrier_init(&bar, NULL, (unsigned)nthreads);
    for (int t = 1; t <= nthreads; t++) { ifs[t] = mk_if(t); vp_if[t] = ifs[t]; }
    if (!strcmp(mode, "warm")) {
        /* every interface registered before the threads start: only steady-state sharing is examined */
        uint8_t *buf = malloc(1500);
        for (int t = 1; t <= nthreads; t++) {
            uint8_t m[6] = {0x02, 0xBB, 0, 0, (uint8_t)t, 0xA0};
            mk_discover(buf, 1500, m, 7);
            buf[17] = 8;
            parseFrame(buf, ifs[t]);
        }
        free(buf);
    }
    for (int t = 1; t <= nthreads; t++) pthread_create(&th[t], NULL, racer, (void *)(long)t);
    for (int t = 1; t <= nthreads; t++) pthread_join(th[t], NULL);
    FILE *tr = fopen(trace, "w");
    if (tr) { fprintf(tr, "{\"e\":\"race\",\"mode\":\"%s\",\"frames\":%d,\"threads\":%d}\n", mode, frames, nthreads); fclose(tr); }
    return 0;
}

int main(int argc, char **argv) {
    vp_sys.fill = 0x33;
    vp_thread_mode = 1;
    if (argc >= 4 && !strcmp(argv[1], "sched")) return run_sched(argv[2], argv[3]);
    if (argc >= 5 && !strcmp(argv[1], "race")) {
        if (argc >= 6) nthreads = atoi(argv[5]);
        return run_race(atoi(argv[2]), argv[3], argv[4]);
    }
    fprintf(stderr, "usage: run_registry sched <script> <trace> | race <frames> <trace> first|warm [threads]\n");
    return 2;
}
