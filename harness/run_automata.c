/* Script-driven driver for lltdAutomata.c: the three automata, the session table, RepeatBand,
 * the session-event classifier, the periodic tick and the frame path of the Darwin daemon
 * (extracted textually from os/darwin/daemon/darwin-main.c into glue.inc by bin/check).
 * One ndjson event per driver action. */
#include <ctype.h>
#include <stdio.h>
#include <stdlib.h>
#include <string.h>
#include <sys/types.h>
#include <arpa/inet.h>

#include "vport.h"
#include "lltdPort.h"
#include "lltdAutomata.h"
#include "lltdBlock.h"
#include "lltd_esp32.h"

static FILE *tr;
/* All times are logged relative to the scenario's clock origin rounded down to a whole second, so that
 * scenarios may run at any magnitude of the monotonic clock (2^32 ms and beyond) while the logged numbers
 * stay small (TLC integers are 32-bit).  Differences and second boundaries are preserved exactly. */
size_t lltd_verif_automata_timeouts(const automata *autom, int *out, size_t cap);
static uint64_t t_origin = 0;                 /* multiple of 1000 */
/* signed and clamped: a time before the origin (or absurdly far after it) stays a number TLC can read, and stays
 * wrong for the monitor to see */
static long long rel_clamp(long long x) {
    if (x < -999999999LL) return -999999999LL;
    if (x > 999999999LL) return 999999999LL;
    return x;
}
#define TMS(x) rel_clamp((long long)((uint64_t)(x) - t_origin))
#define TSEC(x) rel_clamp((long long)((uint64_t)(x) - t_origin / 1000))
#define TMS0(x) ((x) ? TMS(x) : 0LL)         /* 0 stays "never" */
#define TSEC0(x) ((x) ? TSEC(x) : 0LL)
static lltd_esp32_ctx_t espctx;
static int esp_ready;
static long lineno = 0;

/* shim of the Darwin network_interface_t: exactly the fields the frame path uses.  The vif
 * comes first so that the pointer is also a valid iface_ctx for the verification port. */
typedef struct shim_if {
    vif            v;
    const char    *deviceName;
    uint16_t       MapperGenerationTopology;
    uint16_t       MapperGenerationQuick;
    uint8_t        macAddress[6];
    uint8_t        MapperHwAddress[6];
    uint64_t       LastHelloTxMs;
    void          *recvBuffer;
    uint32_t       MTU;
    automata      *mappingAutomata;
    automata      *sessionAutomata;
    automata      *enumerationAutomata;
    session_table *sessionTable;
} shim_if;

static shim_if *cur;
/* several interfaces served by one process: INST k selects which one the following lines drive; every event is
 * tagged with its instance and the trace is validated per instance (each must behave as it would alone) */
#define MAX_INST 4
static shim_if *insts[MAX_INST];
static int sel = 0;

static void die(const char *m) { fprintf(stderr, "HARNESS: line %ld: %s\n", lineno, m); exit(2); }

/* ---- hello callback: logs the virtual time and an independent scan of the real table */
static char hello_log[8192];
static size_t hello_len;
static int hello_count;
static void sendHelloMessage(void *ni) {
    shim_if *s = (shim_if *)ni;
    int valid = 0, incomplete = 0;
    if (s && s->sessionTable) {
        for (int i = 0; i < SESSION_TABLE_MAX_ENTRIES; i++) {
            if (s->sessionTable->entries[i].valid) {
                valid++;
                if (!s->sessionTable->entries[i].complete) incomplete++;
            }
        }
    }
    hello_len += (size_t)snprintf(hello_log + hello_len, sizeof hello_log - hello_len,
                                  "%s{\"t\":%lld,\"tick\":%d,\"valid\":%d,\"inc\":%d}", hello_count ? "," : "",
                                  TMS(vp_now_ms), vp_in_tick, valid, incomplete);
    hello_count++;
}
static void hello_reset(void) { hello_len = 0; hello_count = 0; hello_log[0] = 0; }

#define log_debug(...) ((void)0)
#define log_err(...) ((void)0)

/* the tick as called from the extracted frame path: mark callbacks as made by the tick */
static void verif_tick(automata *m, automata *e, session_table *t, const lltd_automata_tick_port *p) {
    vp_in_tick = 1;
    automata_tick(m, e, t, p);
    vp_in_tick = 0;
}

/* ---- the Darwin frame path, textually extracted */
#define automata_tick verif_tick
static void glue_frame(shim_if *currentNetworkInterface, ssize_t recvLen) {
    lltd_demultiplex_header_t *header = currentNetworkInterface->recvBuffer;
#include "glue.inc"
}
#undef automata_tick

/* ---- helpers */
static int hexv(int c) {
    if (c >= '0' && c <= '9') return c - '0';
    if (c >= 'a' && c <= 'f') return c - 'a' + 10;
    if (c >= 'A' && c <= 'F') return c - 'A' + 10;
    return -1;
}
static size_t parse_hex(const char *s, uint8_t *out, size_t cap) {
    size_t n = 0;
    if (!s || s[0] == '-') return 0;
    while (s[0] && s[1] && hexv(s[0]) >= 0 && hexv(s[1]) >= 0) {
        if (n >= cap) die("hex too long");
        out[n++] = (uint8_t)(hexv(s[0]) * 16 + hexv(s[1]));
        s += 2;
    }
    return n;
}

/* keys 0..65535 stand for 02:4B:00:00:hh:ll; keys 65536.. for addresses that are not ordinary station addresses
 * (a session key is whatever the frame's real-source field held) */
static const uint8_t special_macs[][6] = {
    {0xFF, 0xFF, 0xFF, 0xFF, 0xFF, 0xFF}, {0, 0, 0, 0, 0, 0}, {0x01, 0x00, 0x5E, 0x00, 0x00, 0x01}, {0x03, 0x4B, 0x00, 0x00, 0x00, 0x01},
    {0x33, 0x33, 0x00, 0x00, 0x00, 0x01}, {0x02, 0x4B, 0x01, 0x00, 0x00, 0x01}, {0x02, 0x4B, 0x00, 0x01, 0x00, 0x00}, {0xFE, 0xFF, 0xFF, 0xFF, 0xFF, 0xFF},
};
#define N_SPECIAL ((long)(sizeof special_macs / sizeof special_macs[0]))
static void mac_of_key(long key, uint8_t m[6]) {
    if (key >= 65536 && key < 65536 + N_SPECIAL) { memcpy(m, special_macs[key - 65536], 6); return; }
    m[0] = 0x02; m[1] = 0x4B; m[2] = 0; m[3] = 0; m[4] = (uint8_t)(key >> 8); m[5] = (uint8_t)key;
}
static long key_of_mac(const uint8_t m[6]) {
    if (m[0] == 0x02 && m[1] == 0x4B && m[2] == 0 && m[3] == 0) return ((long)m[4] << 8) | m[5];
    for (long i = 0; i < N_SPECIAL; i++) if (!memcmp(m, special_macs[i], 6)) return 65536 + i;
    return 100000 + (((long)m[2] << 24 | (long)m[3] << 16 | (long)m[4] << 8 | m[5]) & 0x3FFFFFF);
}

static void log_table(session_table *t) {
    fprintf(tr, "\"count\":%d,\"empty\":%d,\"allc\":%d,\"live\":[", t ? t->count : 0,
            session_table_is_empty(t) ? 1 : 0, session_table_all_complete(t) ? 1 : 0);
    int first = 1;
    if (t) for (int i = 0; i < SESSION_TABLE_MAX_ENTRIES; i++) {
        session_entry *e = &t->entries[i];
        if (!e->valid) continue;
        fprintf(tr, "%s[%ld,%u,%d,%lld,%u,%u]", first ? "" : ",", key_of_mac(e->mapper_mac), e->generation,
                e->complete ? 1 : 0, TSEC(e->last_activity_ts), e->seq_number, e->state);
        first = 0;
    }
    fprintf(tr, "]");
}

/* relative deadlines are logged as 32-bit-safe numbers: anything absurdly far away is clamped (and stays absurd) */
static long long clamp_rel(long long x) {
    if (x < -999999999LL) return -999999999LL;
    if (x > 999999999LL) return 999999999LL;
    return x;
}

static void log_state(void) {
    mapping_state *ms = cur->mappingAutomata ? (mapping_state *)cur->mappingAutomata->extra : NULL;
    band_state *b = cur->enumerationAutomata ? (band_state *)cur->enumerationAutomata->extra : NULL;
    fprintf(tr, "\"now\":%lld,\"ms\":%d,\"mlast\":%lld,\"ss\":%d,\"slast\":%lld,\"es\":%d,\"ctc\":%d,\"inact\":%lld,",
            TMS(vp_now_ms),
            cur->mappingAutomata ? cur->mappingAutomata->current_state : -1,
            cur->mappingAutomata ? TSEC(cur->mappingAutomata->last_ts) : 0LL,
            cur->sessionAutomata ? cur->sessionAutomata->current_state : -1,
            cur->sessionAutomata ? TSEC(cur->sessionAutomata->last_ts) : 0LL,
            cur->enumerationAutomata ? cur->enumerationAutomata->current_state : -1,
            ms ? ms->ctc : -1, ms ? TSEC0(ms->inactive_timeout_ts) : 0LL);
    fprintf(tr, "\"ni\":[%u,%u],\"r\":[%u,%u],\"begun\":%d,\"hto\":%lld,\"bto\":%lld,\"lasttx\":%lld,",
            b ? b->Ni >> 16 : 0, b ? b->Ni & 0xFFFF : 0, b ? b->r >> 16 : 0, b ? b->r & 0xFFFF : 0, b ? (b->begun ? 1 : 0) : 0,
            b ? (b->hello_timeout_ts ? clamp_rel((long long)b->hello_timeout_ts - (long long)vp_now_ms) : -1000000000LL) : 0,
            b ? (b->block_timeout_ts ? clamp_rel((long long)b->block_timeout_ts - (long long)vp_now_ms) : -1000000000LL) : 0,
            TMS0(cur->LastHelloTxMs));
    log_table(cur->sessionTable);
}

static void ev_begin(const char *name) {
    fprintf(tr, "{\"e\":\"%s\",\"ln\":%ld,\"inst\":%d,", name, lineno, sel);
}
static void ev_end(void) {
    fprintf(tr, ",\"hellos\":[%s]}\n", hello_log);
    fflush(tr);
    hello_reset();
}

static void do_new(int with_tbl) {
    vp_cur = NULL;
    shim_if *s = calloc(1, sizeof *s);
    s->v.id = 1;
    s->v.mtu = 1500;
    s->v.fill = 0xA5;
    uint8_t m[6] = {0x02, 0xAA, 0, 0, 0, 1};
    memcpy(s->v.mac, m, 6);
    memcpy(s->macAddress, m, 6);
    s->MTU = 1500;
    s->deviceName = "verif0";
    s->mappingAutomata = init_automata_mapping();
    s->sessionAutomata = init_automata_session();
    s->enumerationAutomata = init_automata_enumeration();
    s->sessionTable = with_tbl ? session_table_create() : NULL;
    s->recvBuffer = malloc(s->MTU);
    vp_if[1] = &s->v;
    cur = s;
    insts[sel] = s;
    ev_begin("new");
    {
        /* the per-state timeouts through the verification hook of lltdAutomata.c, not through the struct layout */
        int mt[8] = {0}, st_[8] = {0};
        (void)lltd_verif_automata_timeouts(s->mappingAutomata, mt, 8);
        (void)lltd_verif_automata_timeouts(s->sessionAutomata, st_, 8);
        fprintf(tr, "\"mT\":[%d,%d,%d],\"sT\":[%d,%d,%d,%d],", mt[0], mt[1], mt[2], st_[0], st_[1], st_[2], st_[3]);
    }
    log_state();
    ev_end();
}

static void tick(void) {
    lltd_automata_tick_port port = { cur, &cur->LastHelloTxMs, sendHelloMessage };
    vp_in_tick = 1;
    automata_tick(cur->mappingAutomata, cur->enumerationAutomata, cur->sessionTable, &port);
    vp_in_tick = 0;
}

/* constructor under allocation failure (C18) */
static void do_ctor(const char *which, long k) {
    vif sys2;
    memset(&sys2, 0, sizeof sys2);
    sys2.fill = 0x77;
    vp_cur = &sys2;
    vp_alloc_seq = 0;
    vp_fail_alloc_at = k;
    vp_fail_alloc_sticky = 0;
    vp_faults_fired = 0;
    void *res = NULL;
    int usable = 0;
    if (!strcmp(which, "mapping")) {
        automata *a = init_automata_mapping();
        res = a;
        if (a) { switch_state_mapping(a, opcode_discover, "ctor"); usable = a->current_state == 1; }
    } else if (!strcmp(which, "session")) {
        automata *a = init_automata_session();
        res = a;
        if (a) { switch_state_session(a, sess_discover_noack, "ctor"); usable = a->current_state == 2; }
    } else if (!strcmp(which, "enumeration")) {
        automata *a = init_automata_enumeration();
        res = a;
        if (a) { switch_state_enumeration(a, enum_new_session, "ctor"); usable = a->current_state == 1; }
    } else if (!strcmp(which, "table")) {
        session_table *t = session_table_create();
        res = t;
        if (t) { uint8_t m[6]; mac_of_key(1, m); usable = session_table_add(t, m, 1, 1) != NULL; }
    } else die("unknown constructor");
    long n = vp_alloc_seq;
    uint32_t fired = vp_faults_fired;
    vp_fail_alloc_at = 0;
    vp_cur = NULL;
    ev_begin("ctor");
    fprintf(tr, "\"which\":\"%s\",\"k\":%ld,\"null\":%d,\"usable\":%d,\"allocs\":%ld,\"fired\":%u,\"live\":%ld",
            which, k, res ? 0 : 1, usable, n, fired, sys2.live);
    ev_end();
}

static uint8_t fb[16384];

int main(int argc, char **argv) {
    FILE *in = stdin;
    tr = stdout;
    if (argc > 1 && strcmp(argv[1], "-") != 0) { in = fopen(argv[1], "r"); if (!in) { perror(argv[1]); return 2; } }
    if (argc > 2) { tr = fopen(argv[2], "w"); if (!tr) { perror(argv[2]); return 2; } }
    vp_sys.fill = 0x33;
    hello_reset();

    static char line[70000];
    char *tok[32];
    while (fgets(line, sizeof line, in)) {
        lineno++;
        int nt = 0;
        for (char *p = strtok(line, " \t\r\n"); p && nt < 32; p = strtok(NULL, " \t\r\n")) tok[nt++] = p;
        if (nt == 0 || tok[0][0] == '#') continue;
        const char *c = tok[0];
        if (!strcmp(c, "MARK")) {
            vp_now_ms = 1000;      /* scenario boundary: every scenario starts at the same virtual time */
            t_origin = 0;
            fprintf(tr, "{\"e\":\"mark\",\"ln\":%ld,\"name\":\"%s\"}\n", lineno, nt > 1 ? tok[1] : "");
            for (int i = 0; i < MAX_INST; i++) insts[i] = NULL;
            sel = 0;
        } else if (!strcmp(c, "INST")) {
            int k = nt > 1 ? atoi(tok[1]) : 0;
            if (k < 0 || k >= MAX_INST) die("bad instance");
            sel = k;
            cur = insts[k];
            vp_if[1] = cur ? &cur->v : NULL;
        } else if (!strcmp(c, "NEW")) {
            do_new(nt > 1 ? atoi(tok[1]) : 1);
        } else if (!strcmp(c, "CLOCK")) {
            vp_now_ms = strtoull(tok[1], NULL, 0);      /* absolute: a monotonic clock may well start at 0 - or be weeks old */
            t_origin = vp_now_ms - vp_now_ms % 1000;
        } else if (!strcmp(c, "ADV")) {
            vp_now_ms += strtoull(tok[1], NULL, 0);
        } else if (!strcmp(c, "CTOR")) {
            do_ctor(tok[1], strtol(tok[2], NULL, 0));
        } else {
            if (!cur) die("NEW first");
            if (!strcmp(c, "MSTEP") || !strcmp(c, "SSTEP") || !strcmp(c, "ESTEP")) {
                /* xSTEP input [state last_ts_s] : optionally force the public state first */
                automata *a = c[0] == 'M' ? cur->mappingAutomata : c[0] == 'S' ? cur->sessionAutomata : cur->enumerationAutomata;
                int input = atoi(tok[1]);
                int forced = 0;
                if (nt > 3) { a->current_state = (uint8_t)atoi(tok[2]); a->last_ts = strtoull(tok[3], NULL, 0); forced = 1; }
                int s0 = a->current_state;
                long long l0 = TSEC(a->last_ts);
                if (c[0] == 'M') switch_state_mapping(a, input, "verif");
                else if (c[0] == 'S') switch_state_session(a, input, "verif");
                else switch_state_enumeration(a, input, "verif");
                ev_begin(c[0] == 'M' ? "mstep" : c[0] == 'S' ? "sstep" : "estep");
                fprintf(tr, "\"forced\":%d,\"in\":%d,\"s0\":%d,\"l0\":%lld,\"s1\":%d,\"l1\":%lld,\"nows\":%lld", forced, input, s0, l0,
                        a->current_state, TSEC(a->last_ts), TSEC(vp_now_ms / 1000));
                ev_end();
            } else if (!strcmp(c, "TADD") || !strcmp(c, "TFIND") || !strcmp(c, "TREM") || !strcmp(c, "TCOMP")) {
                uint8_t m[6];
                long key = strtol(tok[1], NULL, 0);
                unsigned gen = (unsigned)strtoul(tok[2], NULL, 0);
                unsigned seq = nt > 3 ? (unsigned)strtoul(tok[3], NULL, 0) : 0;
                mac_of_key(key, m);
                session_entry *e = NULL;
                int called = 1;
                if (!strcmp(c, "TADD")) e = session_table_add(cur->sessionTable, m, (uint16_t)gen, (uint16_t)seq);
                else if (!strcmp(c, "TFIND")) e = session_table_find(cur->sessionTable, m, (uint16_t)gen, (uint16_t)seq);
                else if (!strcmp(c, "TREM")) { session_table_remove(cur->sessionTable, m, (uint16_t)gen); called = 0; }
                else {
                    e = session_table_find(cur->sessionTable, m, (uint16_t)gen, 0);
                    if (e) e->complete = true;
                    session_table_update_complete_status(cur->sessionTable);
                }
                ev_begin("top");
                fprintf(tr, "\"op\":\"%s\",\"key\":%ld,\"gen\":%u,\"seq\":%u,\"ret\":", c, key, gen, seq);
                if (called && e) fprintf(tr, "[%ld,%u,%d,%lld,%u]", key_of_mac(e->mapper_mac), e->generation, e->complete ? 1 : 0,
                                         TSEC(e->last_activity_ts), e->seq_number);
                else fprintf(tr, "[]");
                fprintf(tr, ",\"nows\":%lld,", TSEC(vp_now_ms / 1000));
                log_table(cur->sessionTable);
                ev_end();
            } else if (!strcmp(c, "TCLEAR")) {
                session_table_clear(cur->sessionTable);
                ev_begin("top");
                fprintf(tr, "\"op\":\"TCLEAR\",\"key\":0,\"gen\":0,\"seq\":0,\"ret\":[],\"nows\":%lld,", TSEC(vp_now_ms / 1000));
                log_table(cur->sessionTable);
                ev_end();
            } else if (!strcmp(c, "TTICK")) {
                /* expiry sweep only: the tick with no automata attached */
                vp_in_tick = 1;
                automata_tick(NULL, NULL, cur->sessionTable, NULL);
                vp_in_tick = 0;
                ev_begin("top");
                fprintf(tr, "\"op\":\"TTICK\",\"key\":0,\"gen\":0,\"seq\":0,\"ret\":[],\"nows\":%lld,", TSEC(vp_now_ms / 1000));
                log_table(cur->sessionTable);
                ev_end();
            } else if (!strcmp(c, "TICK")) {
                tick();
                ev_begin("tick");
                log_state();
                ev_end();
            } else if (!strcmp(c, "GLUE")) {
                /* GLUE len fill hex : a received frame through the Darwin frame path (incl. parseFrame and the tick) */
                size_t len = (size_t)strtoul(tok[1], NULL, 0);
                uint8_t fill = (uint8_t)strtoul(tok[2], NULL, 0);
                size_t n = parse_hex(tok[3], fb, sizeof fb);
                if (n > cur->MTU) n = cur->MTU;
                memset(cur->recvBuffer, fill, cur->MTU);
                memcpy(cur->recvBuffer, fb, n);
                vp_cur = &cur->v;
                vp_out_begin();
                unsigned long long now0 = vp_now_ms;     /* the frame path itself may let time pass (reply pause) */
                glue_frame(cur, (ssize_t)len);
                vp_cur = NULL;
                ev_begin("glue");
                fprintf(tr, "\"op\":%u,\"tos\":%u,\"len\":%zu,\"now0\":%lld,\"rs\":", n > 17 ? fb[17] : 0, n > 15 ? fb[15] : 0, len, TMS(now0));
                vp_json_bytes(tr, n >= 30 ? fb + 24 : (const uint8_t *)"\0\0\0\0\0\0", 6);
                fprintf(tr, ",\"gen\":%u,\"seq\":%u,", n >= 34 ? (fb[32] << 8 | fb[33]) : 0, n >= 32 ? (fb[30] << 8 | fb[31]) : 0);
                log_state();
                ev_end();
            } else if (!strcmp(c, "ESP")) {
                /* ESP len hex : the embedded entry point (told the length, exact-length buffer); logs the three
                 * automata it drives before and after */
                if (!esp_ready) { vp_cur = NULL; lltd_esp32_init(&espctx); esp_ready = 1; }
                size_t len = (size_t)strtoul(tok[1], NULL, 0);
                size_t n = parse_hex(tok[2], fb, sizeof fb);
                if (len > n) len = n;
                uint8_t *exact = malloc(len ? len : 1);
                memcpy(exact, fb, len);
                int m0 = espctx.mapping->current_state, s0 = espctx.session->current_state, e0 = espctx.enumeration->current_state;
                long long ml0 = TSEC(espctx.mapping->last_ts), sl0 = TSEC(espctx.session->last_ts);
                lltd_esp32_handle_frame(&espctx, exact, len);
                free(exact);
                ev_begin("esp");
                fprintf(tr, "\"len\":%zu,\"op\":%d,\"m0\":%d,\"s0\":%d,\"e0\":%d,\"ml0\":%lld,\"sl0\":%lld,\"m1\":%d,\"s1\":%d,\"e1\":%d,\"nows\":%lld",
                        len, len >= 18 ? fb[17] : -1, m0, s0, e0, ml0, sl0, espctx.mapping->current_state, espctx.session->current_state,
                        espctx.enumeration->current_state, TSEC(vp_now_ms / 1000));
                ev_end();
            } else if (!strcmp(c, "CLASSIFY")) {
                /* CLASSIFY len fill hex : derive_session_event on an MTU-sized buffer */
                size_t len = (size_t)strtoul(tok[1], NULL, 0);
                uint8_t fill = (uint8_t)strtoul(tok[2], NULL, 0);
                size_t n = parse_hex(tok[3], fb, sizeof fb);
                if (n > cur->MTU) n = cur->MTU;
                if (len > cur->MTU) len = cur->MTU;
                uint8_t *buf = malloc(cur->MTU);
                memset(buf, fill, cur->MTU);
                memcpy(buf, fb, n);
                int evv = derive_session_event(buf, len, cur->sessionTable, cur->macAddress);
                size_t keep = n;
                while (keep > 0 && buf[keep - 1] == fill) keep--;
                ev_begin("classify");
                fprintf(tr, "\"len\":%zu,\"fill\":%u,\"b\":", len, fill);
                vp_json_bytes(tr, buf, keep);
                fprintf(tr, ",\"ev\":%d,\"own\":", evv);
                vp_json_bytes(tr, cur->macAddress, 6);
                fprintf(tr, ",\"mtu\":%u,", cur->MTU);
                log_table(cur->sessionTable);
                ev_end();
                free(buf);
            } else if (!strcmp(c, "BAND")) {
                /* BAND prev_ni r_hi r_lo begun : one end of block */
                band_state *b = (band_state *)cur->enumerationAutomata->extra;
                b->Ni = (uint32_t)strtoul(tok[1], NULL, 0);
                uint32_t rhi = (uint32_t)strtoul(tok[2], NULL, 0), rlo = (uint32_t)strtoul(tok[3], NULL, 0);
                b->r = (rhi << 16) | rlo;
                b->begun = atoi(tok[4]) != 0;
                uint32_t prev = b->Ni;
                band_update_stats(b);
                uint64_t when = band_choose_hello_time(b);
                ev_begin("band");
                fprintf(tr, "\"prev\":[%u,%u],\"r\":[%u,%u],\"begun\":%d,\"ni\":[%u,%u],\"interval\":%lld,\"r1\":%u",
                        prev >> 16, prev & 0xFFFF, rhi, rlo, b->begun ? 1 : 0, b->Ni >> 16, b->Ni & 0xFFFF,
                        clamp_rel((long long)when - (long long)vp_now_ms), b->r);
                ev_end();
            } else if (!strcmp(c, "ENEW")) {
                /* the enumeration event "new session" as the frame path performs it, without a frame:
                 * RepeatBand is (re)started when idle, marked begun otherwise */
                band_state *b = (band_state *)cur->enumerationAutomata->extra;
                if (cur->enumerationAutomata->current_state == 0) { band_init_stats(b); band_choose_hello_time(b); }
                else b->begun = true;
                switch_state_enumeration(cur->enumerationAutomata, enum_new_session, "verif");
                ev_begin("heard");
                fprintf(tr, "\"n\":0,");
                log_state();
                ev_end();
            } else if (!strcmp(c, "HEARD")) {
                band_state *b = (band_state *)cur->enumerationAutomata->extra;
                long n = nt > 1 ? strtol(tok[1], NULL, 0) : 1;
                for (long i = 0; i < n; i++) band_on_hello_received(b);
                ev_begin("heard");
                fprintf(tr, "\"n\":%ld,", n);
                log_state();
                ev_end();
            } else die("unknown directive");
        }
    }
    fprintf(tr, "{\"e\":\"end\",\"ln\":%ld}\n", lineno);
    fclose(tr);
    return 0;
}
